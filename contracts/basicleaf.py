"""Leaf contracts of the basic processor (C02): rule / era selection and the search over the transition cache.

The table entries are read through the broker accessors whose decoding is verified under C12; here the postconditions are
stated over the decoded field values of the entries the pointers designate."""
import z3
from .reg import contract, sx, zx, bv32, valid_ptr
from vc.symex import LoopSpec, Ptr

BZP = 'ace_time::BasicZoneProcessor'
RULE = 'ace_time::basic::ZoneRule'
POLICY = 'ace_time::basic::ZonePolicy'
ERA = 'ace_time::basic::ZoneEra'
INFO = 'ace_time::basic::ZoneInfo'
TRANS = 'ace_time::basic::Transition'

K_SUFFIX_W, K_SUFFIX_S = 0x00, 0x10       # basic::ZoneContext::kSuffixW / kSuffixS (table encoding, C12)


def sizeof(mod, cls):
    return mod.size_of(mod.types['struct.' + cls])


def fld(view, base_bv, cls, name, idx=None, stride=None):
    """field `name` of the entry at base + stride * idx (idx: bit-vector of any width <= 64)"""
    off, size = view.ex.mod.field(cls, name)
    a = base_bv + off
    if idx is not None:
        a = a + stride * zx(idx, 64)
    return view.load(Ptr(None, a), size)


# ---- calcRuleOffsetMinutes ---------------------------------------------------------------------------------
def _rule_offset_post(c):
    prev, base, suf = c.args
    r = c.result
    return [('wall-time-uses-the-previous-total-offset', z3.Implies(suf == K_SUFFIX_W, r == prev)),
            ('standard-time-uses-the-era-offset', z3.Implies(suf == K_SUFFIX_S, r == base)),
            ('universal-time-uses-zero', z3.Implies(z3.And(suf != K_SUFFIX_W, suf != K_SUFFIX_S), r == 0))]


contract(BZP + '::calcRuleOffsetMinutes(short, short, unsigned char)', pure=True, props=['C02'], ensures=_rule_offset_post)


# ---- compareYearMonth --------------------------------------------------------------------------------------
def lex_lt(ay, am, by, bm):
    return z3.Or(ay < by, z3.And(ay == by, z3.ULT(am, bm)))


def _cym_post(c):
    ay, am, by, bm = c.args
    r = c.result
    return [('negative-iff-before', (r < 0) == lex_lt(ay, am, by, bm)),
            ('positive-iff-after', (r > 0) == lex_lt(by, bm, ay, am)),
            ('zero-iff-same-month', (r == 0) == z3.And(ay == by, am == bm))]


contract('ace_time::basic::compareYearMonth(signed char, unsigned char, signed char, unsigned char)', pure=True, props=['C02'], ensures=_cym_post)


# ---- priorYearOfRule / compareRulesBeforeYear ---------------------------------------------------------------
def prior_year(frm, to, year):
    """the largest year y with y <= to and y < year (the caller guarantees from < year)"""
    return z3.If(to < year, to, year - 1)


def _prior_pre(c):
    year, rule = c.args
    frm = fld(c.old, c.ex.ptr_to_bv(rule), RULE, 'fromYearTiny')
    to = fld(c.old, c.ex.ptr_to_bv(rule), RULE, 'toYearTiny')
    return [year > -128, frm < year, frm <= to]


def _prior_post(c):
    year, rule = c.args
    p = c.ex.ptr_to_bv(rule)
    frm, to = fld(c.old, p, RULE, 'fromYearTiny'), fld(c.old, p, RULE, 'toYearTiny')
    r = c.result
    y = z3.BitVec('q_y', 8)
    return [('in-the-rule-and-before-the-year', z3.And(frm <= r, r <= to, r < year)),
            ('the-most-recent-such-year', z3.ForAll([y], z3.Implies(z3.And(frm <= y, y <= to, y < year), y <= r)))]


contract(BZP + '::priorYearOfRule(signed char, ace_time::basic::ZoneRuleBroker)', pure=True, props=['C02'],
         lang_requires=lambda c: [valid_ptr(c.ex, c.args[1], 9)], requires=_prior_pre, ensures=_prior_post)


def rule_key(view, p, year):
    frm, to = fld(view, p, RULE, 'fromYearTiny'), fld(view, p, RULE, 'toYearTiny')
    return prior_year(frm, to, year), fld(view, p, RULE, 'inMonth')


def _crb_pre(c):
    year, a, b = c.args
    out = [year > -128]
    for r in (a, b):
        p = c.ex.ptr_to_bv(r)
        out += [fld(c.old, p, RULE, 'fromYearTiny') < year, fld(c.old, p, RULE, 'fromYearTiny') <= fld(c.old, p, RULE, 'toYearTiny')]
    return out


def _crb_post(c):
    year, a, b = c.args
    ka = rule_key(c.old, c.ex.ptr_to_bv(a), year)
    kb = rule_key(c.old, c.ex.ptr_to_bv(b), year)
    r = c.result
    return [('positive-iff-a-is-in-effect-later', (r > 0) == lex_lt(kb[0], kb[1], ka[0], ka[1])),
            ('negative-iff-a-is-in-effect-earlier', (r < 0) == lex_lt(ka[0], ka[1], kb[0], kb[1]))]


contract(BZP + '::compareRulesBeforeYear(signed char, ace_time::basic::ZoneRuleBroker, ace_time::basic::ZoneRuleBroker)', pure=True, props=['C02'],
         lang_requires=lambda c: [valid_ptr(c.ex, c.args[1], 9), valid_ptr(c.ex, c.args[2], 9)], requires=_crb_pre, ensures=_crb_post)


# ---- views of the rule / era arrays: entry j read through the array pointer ------------------------------------------
S_RULE = 9          # sizeof(basic::ZoneRule): nine one-byte fields (checked against the IR type in _rule_acc_post)
P64, I8 = z3.BitVecSort(64), z3.BitVecSort(8)
# Ghost views, DEFINED as: view(array, j) := the field of entry j of the array in the (unmodified) table memory.  Instances of
# these definitions enter a proof only through the `defs` of the accessors rule(i) / era(i), at the entry the code touches.
_RFROM = z3.Function('rule_from', P64, I8, I8)
_RTO = z3.Function('rule_to', P64, I8, I8)
_RMONTH = z3.Function('rule_month', P64, I8, I8)
_EUNTIL = z3.Function('era_until', P64, I8, I8)


def RFROM(view, rules, j):
    return _RFROM(rules, j)


def RTO(view, rules, j):
    return _RTO(rules, j)


def RMONTH(view, rules, j):
    return _RMONTH(rules, j)


def EUNTIL(view, eras, j):
    return _EUNTIL(eras, j)


def _policy(view, pol_bv):
    return fld(view, pol_bv, POLICY, 'rules'), fld(view, pol_bv, POLICY, 'numRules')


def _rule_acc_pre(c):
    pol = c.old.field(c.this, 'ace_time::basic::ZonePolicyBroker', 'mZonePolicy')
    rules, n = _policy(c.old, pol)
    return [pol != 0, z3.ULT(c.args[1], n)]            # touching entry i is allowed only for i < numRules


def _rule_acc_post(c):
    pol = c.old.field(c.this, 'ace_time::basic::ZonePolicyBroker', 'mZonePolicy')
    rules, n = _policy(c.old, pol)
    i = c.args[1]
    r = c.ex.ptr_to_bv(c.result)
    return [('address-of-entry-i', r == rules + 9 * zx(i, 64)),
            ('stride-is-the-size-of-a-rule', z3.BoolVal(sizeof(c.mod, RULE) == S_RULE))]


def _rule_acc_defs(c):
    pol = c.old.field(c.this, 'ace_time::basic::ZonePolicyBroker', 'mZonePolicy')
    rules, n = _policy(c.old, pol)
    i = c.args[1]
    e = rules + 9 * zx(i, 64)
    return [('def-views-at-i', z3.And(fld(c.old, e, RULE, 'fromYearTiny') == _RFROM(rules, i), fld(c.old, e, RULE, 'toYearTiny') == _RTO(rules, i),
                                      fld(c.old, e, RULE, 'inMonth') == _RMONTH(rules, i)))]


contract('ace_time::basic::ZonePolicyBroker::rule(unsigned char) const', pure=True, props=['C02'], requires=_rule_acc_pre, ensures=_rule_acc_post, defs=_rule_acc_defs)


def _era_acc_pre(c):
    info = c.old.field(c.this, 'ace_time::basic::ZoneInfoBroker', 'mZoneInfo')
    return [info != 0, z3.ULT(c.args[1], fld(c.old, info, INFO, 'numEras'))]


def _era_acc_post(c):
    info = c.old.field(c.this, 'ace_time::basic::ZoneInfoBroker', 'mZoneInfo')
    eras = fld(c.old, info, INFO, 'eras')
    i = c.args[1]
    r = c.ex.ptr_to_bv(c.result)
    return [('address-of-entry-i', r == eras + sizeof(c.mod, ERA) * zx(i, 64)),
            ]


def _era_acc_defs(c):
    info = c.old.field(c.this, 'ace_time::basic::ZoneInfoBroker', 'mZoneInfo')
    eras = fld(c.old, info, INFO, 'eras')
    i = c.args[1]
    return [('def-view-at-i', fld(c.old, eras + sizeof(c.mod, ERA) * zx(i, 64), ERA, 'untilYearTiny') == _EUNTIL(eras, i))]


contract('ace_time::basic::ZoneInfoBroker::era(unsigned char) const', pure=True, props=['C02'], requires=_era_acc_pre, ensures=_era_acc_post, defs=_era_acc_defs)


# ---- findLatestPriorRule ------------------------------------------------------------------------------------
def _key_j(view, rules, j, year):
    return prior_year(RFROM(view, rules, j), RTO(view, rules, j), year), RMONTH(view, rules, j)


def _ge(view, pa, rules, j, year):
    """the rule at pointer pa is in effect no earlier (before `year`) than rule j of the policy"""
    ka = rule_key(view, pa, year)
    kj = _key_j(view, rules, j, year)
    return z3.Not(lex_lt(ka[0], ka[1], kj[0], kj[1]))


def _wf(view, rules, n):
    j = z3.BitVec('q_j', 8)
    return z3.ForAll([j], z3.Implies(z3.ULT(j, n), RFROM(view, rules, j) <= RTO(view, rules, j)), patterns=[RFROM(view, rules, j)])


def _none_before(view, rules, upto, year):
    j = z3.BitVec('q_j', 8)
    return z3.ForAll([j], z3.Implies(z3.ULT(j, upto), z3.Not(RFROM(view, rules, j) < year)), patterns=[RFROM(view, rules, j)])


def _latest(view, cur, rules, upto, year):
    j = z3.BitVec('q_j', 8)
    return z3.ForAll([j], z3.Implies(z3.And(z3.ULT(j, upto), RFROM(view, rules, j) < year), _ge(view, cur, rules, j, year)), patterns=[RFROM(view, rules, j)])


def _flpr_pre(c):
    pol, year = c.args
    p = c.ex.ptr_to_bv(pol)
    rules, n = _policy(c.old, p)
    # the rule array is an object of the program: non-null, not wrapping around the address space
    return [year > -128, z3.Implies(p != 0, z3.And(_wf(c.old, rules, n), rules != 0, z3.ULE(rules, z3.BitVecVal((1 << 64) - 1 - 9 * 256 - 64, 64))))]


def _flpr_post(c):
    pol, year = c.args
    p = c.ex.ptr_to_bv(pol)
    rules, n = _policy(c.old, p)
    r = c.ex.ptr_to_bv(c.result)
    return [('null-policy-gives-null', z3.Implies(p == 0, r == 0)),
            ('null-only-if-no-rule-starts-before-the-year', z3.Implies(z3.And(p != 0, r == 0), _none_before(c.old, rules, n, year))),
            ('no-rule-starting-before-the-year-gives-null', z3.Implies(z3.And(p != 0, _none_before(c.old, rules, n, year)), r == 0)),
            ('result-is-an-entry-of-the-policy', z3.Implies(r != 0, z3.And(z3.UGE(r, rules), z3.ULE(r, rules + 9 * zx(n - 1, 64))))),
            ('result-starts-before-the-year', z3.Implies(r != 0, fld(c.old, r, RULE, 'fromYearTiny') < year)),
            ('no-rule-starting-before-the-year-is-in-effect-later', z3.Implies(r != 0, _latest(c.old, r, rules, n, year)))]


def _flpr_inv(L):
    pol, year = L.c.args
    p = L.ex.ptr_to_bv(pol)
    rules, n = _policy(L.mem, p)
    i = L.var('i')
    # `latest` is the returned object (constructed in place): its only member is the table pointer
    cur = L.ex.ptr_to_bv(L.ptr('latest' if 'latest' in L.frame.allocas else 'retval'))
    return [('bounds', z3.And(z3.ULE(i, n), p != 0, L.var('numRules') == n)),
            ('broker-copy-unchanged', L.ex.ptr_to_bv(L.ptr('zonePolicy')) == p),
            ('null-implies-none-so-far', z3.Implies(cur == 0, _none_before(L.mem, rules, i, year))),
            ('none-so-far-implies-null', z3.Implies(_none_before(L.mem, rules, i, year), cur == 0)),
            ('entry', z3.Implies(cur != 0, z3.And(i != 0, z3.UGE(cur, rules), z3.ULE(cur, rules + 9 * zx(i - 1, 64)), fld(L.mem, cur, RULE, 'fromYearTiny') < year,
                                                 fld(L.mem, cur, RULE, 'fromYearTiny') <= fld(L.mem, cur, RULE, 'toYearTiny')))),
            ('latest-so-far', z3.Implies(cur != 0, _latest(L.mem, cur, rules, i, year)))]


contract(BZP + '::findLatestPriorRule(ace_time::basic::ZonePolicyBroker, signed char)', pure=True, props=['C02'],
         requires=_flpr_pre, ensures=_flpr_post,
         loops={0: LoopSpec(_flpr_inv, variant=lambda L: zx(L.var('numRules'), 32) - zx(L.var('i'), 32))})


# ---- findZoneEra ---------------------------------------------------------------------------------------------
def _info(view, info_bv):
    return fld(view, info_bv, INFO, 'eras'), fld(view, info_bv, INFO, 'numEras')


def _no_era_ends_after(view, eras, upto, year):
    j = z3.BitVec('q_j', 8)
    return z3.ForAll([j], z3.Implies(z3.ULT(j, upto), z3.Not(year < EUNTIL(view, eras, j))), patterns=[EUNTIL(view, eras, j)])


def _fze_pre(c):
    info, year = c.args
    p = c.ex.ptr_to_bv(info)
    eras, n = _info(c.old, p)
    return [p != 0, n != 0]


def _fze_post(c):
    info, year = c.args
    p = c.ex.ptr_to_bv(info)
    eras, n = _info(c.old, p)
    S = sizeof(c.mod, ERA)
    r = c.ex.ptr_to_bv(c.result)
    k = z3.BitVec('q_k', 8)
    until_r = fld(c.old, r, ERA, 'untilYearTiny')
    return [('result-is-an-era-of-the-zone', z3.Exists([k], z3.And(z3.ULT(k, n), r == eras + S * zx(k, 64)))),
            ('first-era-that-ends-after-the-year', z3.Implies(year < until_r, z3.Exists([k], z3.And(z3.ULT(k, n), r == eras + S * zx(k, 64),
                                                                                                    _no_era_ends_after(c.old, eras, k, year))))),
            ('otherwise-the-last-era', z3.Implies(z3.Not(year < until_r), z3.And(r == eras + S * zx(n - 1, 64), _no_era_ends_after(c.old, eras, n, year))))]


def _fze_inv(L):
    info, year = L.c.args
    p = L.ex.ptr_to_bv(info)
    eras, n = _info(L.mem, p)
    i = L.var('i')
    return [('bounds', z3.ULE(i, n)), ('broker-copy-unchanged', L.ex.ptr_to_bv(L.ptr('info')) == p),
            ('none-before', _no_era_ends_after(L.mem, eras, i, year))]


contract(BZP + '::findZoneEra(ace_time::basic::ZoneInfoBroker, signed char)', pure=True, props=['C02'],
         requires=_fze_pre, ensures=_fze_post,
         loops={0: LoopSpec(_fze_inv, variant=lambda L: zx(_info(L.mem, L.ex.ptr_to_bv(L.c.args[0]))[1], 32) - zx(L.var('i'), 32))})


# ---- findMatch (cache of at most five transitions: unrolled) -------------------------------------------------
def _cache(view, this):
    p = view.ex.ptr_to_bv(this)
    off, _ = view.ex.mod.field(BZP, 'mTransitions')
    return p + off, view.field(this, BZP, 'mNumTransitions')


def _fm_pre(c):
    base, n = _cache(c.old, c.this)
    return [z3.ULE(n, 5)]


def _fm_post(c):
    base, n = _cache(c.old, c.this)
    S = sizeof(c.mod, TRANS)
    t = c.args[1]
    r = c.ex.ptr_to_bv(c.result)
    start = lambda k: fld(c.old, base, TRANS, 'startEpochSeconds', z3.BitVecVal(k, 8), S)
    at = lambda k: base + S * k
    return [('empty-cache-gives-null', (r == 0) == (n == 0)),
            ('result-is-a-cached-transition', z3.Implies(r != 0, z3.Or([z3.And(z3.UGT(n, k), r == at(k)) for k in range(5)]))),
            ('first-entry-or-started-by-then', z3.Implies(r != 0, z3.Or(r == base, fld(c.old, r, TRANS, 'startEpochSeconds') <= t))),
            ('every-later-entry-starts-afterwards', z3.And([z3.Implies(z3.And(r != 0, z3.UGT(n, k), z3.ULT(r, at(k))), start(k) > t) for k in range(5)]))]


contract(BZP + '::findMatch(int) const', pure=True, props=['C02'], requires=_fm_pre, ensures=_fm_post, unroll=6)


# ---- createTransition --------------------------------------------------------------------------------------------
CT = BZP + '::createTransition(signed char, unsigned char, ace_time::basic::ZoneEraBroker, ace_time::basic::ZoneRuleBroker)'


def _ct_pre(c):
    res, year, month, era, rule = c.args
    rb = c.ex.ptr_to_bv(rule)
    return [c.ex.ptr_to_bv(era) != 0]


def _ct_post(c):
    res, year, month, era, rule = c.args
    eb, rb = c.ex.ptr_to_bv(era), c.ex.ptr_to_bv(rule)
    g = lambda n: c.new.field(res, TRANS, n)
    ef = lambda n: c.old.field(era, ERA, n)
    rf = lambda n: c.old.field(rule, RULE, n)
    delta = z3.If(rb == 0, sx(ef('deltaCode'), 16) * 15, sx(rf('deltaCode'), 16) * 15)
    mon = z3.If(month != 0, month, z3.If(rb == 0, z3.BitVecVal(1, 8), rf('inMonth')))
    ab0 = c.new.load(c.ex.ptr_add(res, c.mod.field(TRANS, 'abbrev')[0]), 1)
    return [('era-and-rule-recorded', z3.And(g('era') == eb, g('rule') == rb)),
            ('start-not-yet-computed', g('startEpochSeconds') == 0),
            ('year-recorded', g('yearTiny') == year),
            ('month-given-or-of-the-rule-or-january', g('month') == mon),
            ('dst-shift-of-the-rule-or-of-the-era', g('deltaMinutes') == delta),
            ('total-offset-is-era-offset-plus-dst-shift', g('offsetMinutes') == sx(ef('offsetCode'), 16) * 15 + delta),
            ('letter-of-the-rule-or-none', ab0 == z3.If(rb == 0, z3.BitVecVal(0, 8), rf('letter')))]


contract(CT, props=['C02'], lang_requires=lambda c: [valid_ptr(c.ex, c.args[3], 24)] + [z3.Implies(c.ex.ptr_to_bv(c.args[4]) != 0, valid_ptr(c.ex, c.args[4], 9))],
         requires=_ct_pre, ensures=_ct_post, assigns=lambda c: [(c.args[0], sizeof(c.mod, TRANS))])
