"""C08 -- binding / cache-flag protocol of time zones, processors and the manager cache (ghost binding state)."""
import z3
from .reg import contract, lemma, bv32, sx, zx, byte, LemmaOb, valid_ptr
from vc.symex import Ptr, BV, Contract, LoopSpec
from . import timezone as tzc
from . import reg as _reg
from .timezone import tz_fields, bound_to_own_zone, K_MANUAL, K_BASIC, K_EXT, K_BASIC_M, K_EXT_M

TZ = 'ace_time::TimeZone'


def _delegating(name, assigns=None):
    contract('ace_time::TimeZone::%s' % name, props=['C08'], ensures=lambda c: bound_to_own_zone(c) or [('no-processor-involved', z3.BoolVal(True))],
             assigns=assigns or (lambda c: []))


_delegating('getDeltaOffset(int) const')
_delegating('getAbbrev(int) const')
_delegating('getOffsetDateTime(ace_time::LocalDateTime const&) const')
_delegating('printTo(Print&) const')
_delegating('printShortTo(Print&) const')

# ---- the two processors ---------------------------------------------------------------------------------
PROCS = {
    'ace_time::BasicZoneProcessor': dict(zi='mZoneInfo.mZoneInfo', key='mYearTiny', filled='mIsFilled', count='mNumTransitions',
                                         info='ace_time::basic::ZoneInfo', ctx='ace_time::basic::ZoneContext'),
    'ace_time::ExtendedZoneProcessor': dict(zi='mZoneInfo.mZoneInfo', key='mYear', filled='mIsFilled', count='mNumMatches',
                                            info='ace_time::extended::ZoneInfo', ctx='ace_time::extended::ZoneContext'),
}


def pf(view, this, P):
    d = PROCS[P]
    f = lambda n: view.field(this, P, n)
    return dict(zi=f(d['zi']), key=f(d['key']), filled=f(d['filled']), count=f(d['count']))


for P, d in PROCS.items():
    def _szi_post(c, P=P):
        o, n = pf(c.old, c.this, P), pf(c.new, c.this, P)
        zi = c.ex.ptr_to_bv(c.args[1])
        return [('same-zone-changes-nothing', z3.Implies(o['zi'] == zi, z3.And(n['zi'] == o['zi'], n['key'] == o['key'], n['filled'] == o['filled'], n['count'] == o['count']))),
                ('other-zone-rebinds-and-invalidates', z3.Implies(o['zi'] != zi, z3.And(n['zi'] == zi, n['filled'] == 0)))]

    contract(P + '::setZoneInfo(void const*)', props=['C08'], ensures=_szi_post,
             assigns=lambda c, P=P: [c.field_addr(c.this, P, PROCS[P][k]) for k in ('zi', 'key', 'filled', 'count')])
    contract(P + '::getZoneInfo() const', pure=True, props=['C08'],
             ensures=lambda c, P=P: [('field', c.ex.ptr_to_bv(c.result) == pf(c.old, c.this, P)['zi'])])

# ---- abstract summaries of the fill pipelines ("Fill"): they may write the cache arrays, never the binding / key / flag ----


def _cache_region(c, P):
    this = c.ghost['processor']
    if P == 'ace_time::BasicZoneProcessor':
        a, n = c.field_addr(this, P, 'mTransitions')
        b, m = c.field_addr(this, P, 'mNumTransitions')
        return [(a, n), (b, m)]
    a, n = c.field_addr(this, P, 'mMatches')
    b, m = c.field_addr(this, P, 'mTransitionStorage')
    cc, k = c.field_addr(this, P, 'mNumMatches')
    return [(a, n), (b, m), (cc, k)]


def _pool_ri(c, P):
    if P != 'ace_time::ExtendedZoneProcessor':
        return []
    from . import extended as xt
    this = c.ghost['processor']
    off, _ = c.mod.field(P, 'mTransitionStorage')
    st = c.ex.ptr_add(this, off)
    return _pool_ready(c, c.new, st)


def _pool_ready(c, view, st):
    """what the searches over the active pool require: the index triple is ordered and every active slot points at a pool entry"""
    from . import extended as xt
    k = z3.BitVec('q_n', 8)
    p = xt.pool(view, st)
    return [('pool-representation-invariant', xt.RI(p)),
            ('active-slots-point-at-pool-entries', z3.ForAll([k], z3.Implies(z3.ULT(k, p['free']), xt.slot(view, st, k) != 0)))]


def _count_ri(c, P):
    """basic processor: at most kMaxCacheEntries (5) cached transitions -- addTransition(), the only function that increments the
    count, returns early at 5 (its contract below is proved)"""
    if P != 'ace_time::BasicZoneProcessor':
        return []
    return [('cache-count-within-kMaxCacheEntries', z3.ULE(pf(c.new, c.ghost['processor'], P)['count'], 5))]


def _summary(name, P):
    contract(name, extern=False, props=[], ensures=lambda c, P=P: _pool_ri(c, P) + _count_ri(c, P), assigns=lambda c, P=P: _cache_region(c, P),
             note='ASSUMED summary of the fill pipeline (determinism and correctness of its result are checked by the bounded stand-ins of C01/C02/C08): writes only the cache arrays of the processor; basic processor: leaves at most kMaxCacheEntries transitions (proved on addTransition, the only function that increments the count; assumed for the functions that call it in loops)')
    # the static pipeline functions have no `this`: the processor they work for is ghost state set by init()'s contract
    _reg.REG[name].call_site_reads = ('ghost',)


B = 'ace_time::BasicZoneProcessor'
E = 'ace_time::ExtendedZoneProcessor'
for nm in ('addTransitionPriorToYear(signed char) const', 'addTransitionsForYear(signed char, ace_time::basic::ZoneEraBroker) const',
           'addTransitionAfterYear(signed char, ace_time::basic::ZoneEraBroker) const', 'calcTransitions() const', 'calcAbbreviations() const'):
    _summary(B + '::' + nm, B)
for nm in ('findMatches(ace_time::extended::ZoneInfoBroker, ace_time::extended::YearMonthTuple const&, ace_time::extended::YearMonthTuple const&, ace_time::extended::ZoneMatch*, unsigned char)',
           'findTransitions(ace_time::extended::TransitionStorage<(unsigned char)8>&, ace_time::extended::ZoneMatch*, unsigned char)',
           'fixTransitionTimes(ace_time::extended::Transition**, ace_time::extended::Transition**)',
           'generateStartUntilTimes(ace_time::extended::Transition**, ace_time::extended::Transition**)',
           'calcAbbreviations(ace_time::extended::Transition**, ace_time::extended::Transition**)'):
    _summary(E + '::' + nm, E)


def _init_pre(c, P):
    c.ghost['processor'] = c.this
    o = pf(c.old, c.this, P)
    d = PROCS[P]
    zi = o['zi']
    # the zone info and its context are valid objects distinct from the processor (flash tables)
    # class invariant of a filled extended cache: the transition pool is in the state its searches require
    return [z3.ULE(o['filled'], 1), zi != 0] + ([z3.ULE(o['count'], 5)] if P == B else
                                                [z3.Implies(o['filled'] == 1, z3.And(*[e for _, e in _pool_ready(c, c.old, _storage(c))]))])


def _key_of_fields(P, yt, m, d):
    if P == B:
        return z3.If(z3.And(m == 1, d == 1), yt - 1, yt)
    return z3.Extract(15, 0, sx(yt) + 2000)


def _year_key(c, P):
    yt, m, d = (c.old.field(c.args[1], 'ace_time::LocalDate', n) for n in ('mYearTiny', 'mMonth', 'mDay'))
    return _key_of_fields(P, yt, m, d)


def _init_post(c, P):
    o, n = pf(c.old, c.this, P), pf(c.new, c.this, P)
    key = _year_key(c, P)
    r = c.result
    hit = z3.And(o['filled'] == 1, o['key'] == key)
    return [('true-only-with-the-cache-filled-for-that-year', z3.Implies(r == 1, z3.And(n['filled'] == 1, n['key'] == key))),
            ('failure-leaves-the-cache-invalid', z3.Implies(r == 0, n['filled'] == 0)),
            ('cache-hit-changes-nothing', z3.Implies(hit, z3.And(r == 1, n['key'] == o['key'], n['filled'] == o['filled'], n['count'] == o['count']))),
            ('binding-untouched', n['zi'] == o['zi']),
            ('flag-is-a-bool', z3.ULE(n['filled'], 1))] + ([('cache-count-within-kMaxCacheEntries', z3.ULE(n['count'], 5))] if P == B else
                                                         [('success:' + l, z3.Implies(r == 1, e)) for l, e in _pool_ready(c, c.new, _storage(c))])


def _storage(c):
    off, _ = c.mod.field(E, 'mTransitionStorage')
    return c.ex.ptr_add(c.this, off)


# ---- the entry points that take an instant: the answer comes from the cache only after the cache has been (re)built for the year of
# ---- THAT instant, whatever the processor was asked before (history independence of the cache key) --------------------------------
def _date_of(s, yt, m, d):
    """(yt, m, d) is the date LocalDate::forEpochSeconds(s) returns (its contract, C06)"""
    from .calendar import ld_is_error, valid_fields, dfc_fields, floor_div_86400
    ok = s != bv32(-(1 << 31))
    return z3.And(z3.Implies(z3.Not(ok), ld_is_error(yt, m, d)), z3.Implies(ok, valid_fields(yt, m, d)),
                  z3.Implies(ok, dfc_fields(yt, m, d) == floor_div_86400(s)))


def _keyed_for_the_instant(c, P, s):
    n = pf(c.new, c.this, P)
    st = c.state
    if c.own and st is not None and st.frames and st.frames[-1].fn is c.fn and 'ld' in st.frames[-1].allocas:
        # own exit: the existential below is shown with its witness, the local LocalDate the function computed from the instant
        ld = st.frames[-1].allocas['ld']
        yt, m, d = (c.ex._load_at(st.bytes[ld.id], ld, o, 1, False, st) for o in (0, 1, 2))
        return z3.And(_date_of(s, yt, m, d), n['filled'] == 1, n['key'] == _key_of_fields(P, yt, m, d))
    yt, m, d = z3.BitVec('q_yt', 8), z3.BitVec('q_m', 8), z3.BitVec('q_d', 8)
    return z3.Exists([yt, m, d], z3.And(_date_of(s, yt, m, d), n['filled'] == 1, n['key'] == _key_of_fields(P, yt, m, d)))


def _get_transition_post(c):
    o, n = pf(c.old, c.this, B), pf(c.new, c.this, B)
    r = c.ex.ptr_to_bv(c.result)
    return [('an-answer-only-from-the-cache-built-for-the-year-of-that-instant', z3.Implies(r != 0, _keyed_for_the_instant(c, B, c.args[1]))),
            ('binding-untouched', n['zi'] == o['zi']),
            ('cache-count-within-kMaxCacheEntries', z3.ULE(n['count'], 5))]


def _init_instant_post(c):
    o, n = pf(c.old, c.this, E), pf(c.new, c.this, E)
    return [('true-only-with-the-cache-built-for-the-year-of-that-instant', z3.Implies(c.result == 1, _keyed_for_the_instant(c, E, c.args[1]))),
            ('failure-leaves-the-cache-invalid', z3.Implies(c.result == 0, n['filled'] == 0)),
            ('binding-untouched', n['zi'] == o['zi'])]


for P in (B, E):
    contract(P + '::init(ace_time::LocalDate const&) const', props=['C08'], requires=lambda c, P=P: _init_pre(c, P),
             ensures=lambda c, P=P: _init_post(c, P),
             assigns=lambda c, P=P: [c.field_addr(c.this, P, PROCS[P]['key']), c.field_addr(c.this, P, PROCS[P]['filled'])] + _cache_region(c, P))

contract(B + '::getTransition(int) const', props=['C02', 'C08'], requires=lambda c: _init_pre(c, B), ensures=_get_transition_post,
         assigns=lambda c: [c.field_addr(c.this, B, PROCS[B]['key']), c.field_addr(c.this, B, PROCS[B]['filled'])] + _cache_region(c, B))
contract(E + '::init(int) const', props=['C01', 'C08'], requires=lambda c: _init_pre(c, E), ensures=_init_instant_post,
         assigns=lambda c: [c.field_addr(c.this, E, PROCS[E]['key']), c.field_addr(c.this, E, PROCS[E]['filled'])] + _cache_region(c, E))

# ---- ExtendedZoneProcessor::getOffsetDateTime(ldt) (C07): which transitions decide the answer, and how ---------------------------
def _total_offset(view, t):
    """offsetMinutes + deltaMinutes of the Transition at address t (as the code adds them, 16 bits)"""
    from . import extended as xt
    f = lambda n: view.load(Ptr(None, t + view.ex.mod.field(xt.TR, n)[0]), 2)
    return f('offsetMinutes') + f('deltaMinutes')


def _god_post(c):
    """proved at the function's own exit over the calls it made (the function is virtual and reached through TimeZone only, whose
    model is the environment contract of contracts/timezone.py, so nothing is exported to call sites):
      - the transition for the wall time is the one TransitionStorage::findTransitionForDateTime returns for THIS ldt (its contract:
        starts at or before the wall time, successor later -- the later of the two candidates in an overlap);
      - the instant is that wall time read with that transition's total offset (in a gap: the offset in force before the gap);
      - the answer is that instant shown with the total offset of the transition TransitionStorage::findTransition returns for it
        (its contract: in effect at that instant), i.e. OffsetDateTime::forEpochSeconds(instant, offset) -- a normalised value;
      - error exactly when init() fails or a search finds nothing."""
    if not c.own:
        return []
    from . import zoned, calendar as cal
    calls = [e for e in c.log if e[0] == 'call']
    inits = [e for e in calls if e[1].startswith(E + '::init(ace_time::LocalDate const&)')]
    f1 = [e for e in calls if 'findTransitionForDateTime' in e[1]]
    f2 = [e for e in calls if '::findTransition(int)' in e[1]]
    g, goff = zoned.odt_fields_val(c.result)
    err = zoned.odt_is_error(g, goff)
    ldt = c.args[1]
    # the caller's object, read in the memory after init() (it lies outside init()'s frame, so these are its entry values; reading
    # it there keeps the terms identical to the ones the code read)
    lf = cal.ldt_fields(c.new, ldt)
    out = [('asks-init-once', z3.BoolVal(len(inits) == 1))]
    if len(inits) != 1:
        return out
    ok = inits[0][3]
    if not f1:
        return out + [('without-a-search-only-after-init-failed', ok == 0), ('init-failure-gives-error', err)]
    t1 = c.ex.ptr_to_bv(f1[-1][3])
    out += [('one-wall-time-search', z3.BoolVal(len(f1) == 1)),
            ('wall-time-search-is-for-this-local-time', c.ex.ptr_to_bv(f1[-1][2][1]) == c.ex.ptr_to_bv(ldt)),
            ('no-transition-for-the-wall-time-gives-error', z3.Implies(t1 == 0, err))]
    off1 = _total_offset(c.new, t1)
    inst = zoned.instant_of(lf, off1)
    if not f2:
        return out + [('without-the-second-search-only-when-the-first-found-nothing-or-an-error-offset', z3.Or(t1 == 0, off1 == zoned.ERR_OFF))]
    t2 = c.ex.ptr_to_bv(f2[-1][3])
    off2 = _total_offset(c.new, t2)
    okr = z3.And(t2 != 0, zoned.in_range(f2[-1][2][1], off2), off2 != zoned.ERR_OFF)
    out += [('one-instant-search', z3.BoolVal(len(f2) == 1)),
            ('instant-is-the-wall-time-read-with-the-offset-of-its-transition', f2[-1][2][1] == inst),
            ('no-transition-for-the-instant-gives-error', z3.Implies(t2 == 0, err)),
            ('answer-has-the-offset-in-effect-at-that-instant', z3.Implies(t2 != 0, goff == off2)),
            ('answer-is-that-instant-in-that-offset:valid-fields', z3.Implies(okr, cal.ldt_valid(g))),
            ('answer-is-that-instant-in-that-offset:fields', z3.Implies(okr, cal.ldt_seconds64(g) == sx(f2[-1][2][1], 64) + 60 * sx(off2, 64)))]
    return out


contract(E + '::getOffsetDateTime(ace_time::LocalDateTime const&) const', props=['C07'],
         requires=lambda c: _init_pre(c, E) + [__import__('contracts.calendar', fromlist=['ldt_valid']).ldt_valid(
             __import__('contracts.calendar', fromlist=['ldt_fields']).ldt_fields(c.old, c.args[1]))],
         # the local date-time argument is an object of the caller, disjoint from the processor
         lang_requires=lambda c: [valid_ptr(c.ex, c.args[1], 6), valid_ptr(c.ex, c.this, c.mod.size_of(c.mod.types['class.ace_time::ExtendedZoneProcessor'])),
                                  z3.Or(z3.ULE(c.ex.ptr_to_bv(c.args[1]) + 6, c.ex.ptr_to_bv(c.this)),
                                        z3.ULE(c.ex.ptr_to_bv(c.this) + c.mod.size_of(c.mod.types['class.ace_time::ExtendedZoneProcessor']), c.ex.ptr_to_bv(c.args[1])))],
         ensures=_god_post,
         assigns=lambda c: [c.field_addr(c.this, E, PROCS[E]['key']), c.field_addr(c.this, E, PROCS[E]['filled'])] + _cache_region(c, E))

# ---- addTransition: the only function that increments the basic processor's transition count keeps it within the cache array ----
def _add_tr_region(c):
    a, n = c.field_addr(c.this, B, 'mTransitions')
    b, m = c.field_addr(c.this, B, 'mNumTransitions')
    return [(a, n), (b, m)]


def _add_tr_post(c):
    o, n = pf(c.old, c.this, B), pf(c.new, c.this, B)
    return [('count-stays-within-kMaxCacheEntries', z3.ULE(n['count'], 5)),
            ('full-cache-drops-the-transition', z3.Implies(o['count'] == 5, n['count'] == 5)),
            ('otherwise-one-more', z3.Implies(z3.ULT(o['count'], 5), n['count'] == o['count'] + 1))]


def _add_tr_inv(L):
    # the insertion sort permutes the entries below the (already incremented) count and never touches the count
    c = L.c
    o = pf(c.old, c.this, B)['count']
    n = L.mem.field(c.this, B, 'mNumTransitions')
    return [('count-is-one-more-than-at-entry', z3.And(z3.ULT(o, 5), n == o + 1)),
            ('index-below-count', z3.ULT(L.var('i'), n))]


contract(B + '::addTransition(signed char, unsigned char, ace_time::basic::ZoneEraBroker, ace_time::basic::ZoneRuleBroker) const', props=['C08', 'C09'],
         lang_requires=lambda c: [valid_ptr(c.ex, c.args[3], 24), z3.Implies(c.ex.ptr_to_bv(c.args[4]) != 0, valid_ptr(c.ex, c.args[4], 9)),
                                  valid_ptr(c.ex, c.this, c.mod.size_of(c.mod.types['class.ace_time::BasicZoneProcessor']))],
         requires=lambda c: [z3.ULE(pf(c.old, c.this, B)['count'], 5), c.ex.ptr_to_bv(c.args[3]) != 0],
         ensures=_add_tr_post, assigns=_add_tr_region,
         loops={0: LoopSpec(_add_tr_inv, variant=lambda L: zx(L.var('i')))})

# ---- the manager's processor cache (SIZE = 1..4 instantiations, as in the property) ------------------------
CACHES = {}
for _size in (1, 2, 3, 4):
    CACHES[('ace_time::ZoneProcessorCacheImpl<(unsigned char)%d, (unsigned char)4, ace_time::BasicZoneProcessor, ace_time::basic::ZoneInfo, ace_time::basic::ZoneInfoBroker>' % _size)] = (B, 'ace_time::basic::ZoneInfo', _size)
    CACHES[('ace_time::ZoneProcessorCacheImpl<(unsigned char)%d, (unsigned char)5, ace_time::ExtendedZoneProcessor, ace_time::extended::ZoneInfo, ace_time::extended::ZoneInfoBroker>' % _size)] = (E, 'ace_time::extended::ZoneInfo', _size)


def _make_cache(CN, P, ZI, SIZE):

    def _slots(c, view, CN=CN, P=P):
        base, total = c.field_addr(c.this, CN, 'mZoneProcessors')
        psize = total // SIZE
        return [c.ex.ptr_add(base, k * psize) for k in range(SIZE)], psize

    def _gzp_pre(c, CN=CN):
        return [z3.ULT(c.old.field(c.this, CN, 'mCurrentIndex'), SIZE)]

    def _gzp_post(c, CN=CN, P=P):
        slots, psize = _slots(c, c.old)
        key = c.ex.ptr_to_bv(c.args[1])
        r = c.ex.ptr_to_bv(c.result)
        is_slot = [r == c.ex.ptr_to_bv(s) for s in slots]
        out = [('returns-one-of-its-processors', z3.Or(is_slot)),
               ('round-robin-index-stays-in-range', z3.ULT(c.new.field(c.this, CN, 'mCurrentIndex'), SIZE))]
        for k, s in enumerate(slots):
            o, n = pf(c.old, s, P), pf(c.new, s, P)
            out.append(('slot-%d:returned-processor-is-bound-to-the-key' % k, z3.Implies(is_slot[k], n['zi'] == key)))
            out.append(('slot-%d:other-processors-untouched' % k, z3.Implies(z3.Not(is_slot[k]), z3.And(n['zi'] == o['zi'], n['key'] == o['key'], n['filled'] == o['filled']))))
            out.append(('slot-%d:a-processor-already-bound-to-the-key-is-reused-as-is' % k, z3.Implies(z3.And(o['zi'] == key, *[pf(c.old, s2, P)['zi'] != key for s2 in slots[:k]]),
                                                                                                      z3.And(is_slot[k], n['key'] == o['key'], n['filled'] == o['filled']))))
        return out

    def _gzp_assigns(c, CN=CN, P=P):
        slots, psize = _slots(c, c.old)
        out = [c.field_addr(c.this, CN, 'mCurrentIndex')]
        for s in slots:
            out += [c.field_addr(s, P, PROCS[P][k]) for k in ('zi', 'key', 'filled', 'count')]
        return out

    contract(CN + '::getZoneProcessor(void const*)', props=['C08', 'C09'], requires=_gzp_pre, ensures=_gzp_post, assigns=_gzp_assigns, unroll=SIZE + 1)


for _cn, (_p, _zi, _sz) in CACHES.items():
    _make_cache(_cn, _p, _zi, _sz)
