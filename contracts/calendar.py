"""C06 -- contracts on LocalDate / LocalTime / LocalDateTime / local_date_mutation."""
import z3
from .reg import contract, lemma, bv32, sx, zx, byte, disjoint, INT32_MIN
from . import spec

LD = 'ace_time::LocalDate'
LT = 'ace_time::LocalTime'
LDT = 'ace_time::LocalDateTime'

MIN_DAYS = -46385   # 1873-01-01
MAX_DAYS = 46750    # 2127-12-31


def ld_fields(view, p):
    return (view.field(p, LD, 'mYearTiny'), view.field(p, LD, 'mMonth'), view.field(p, LD, 'mDay'))


def lt_fields(view, p):
    return (view.field(p, LT, 'mHour'), view.field(p, LT, 'mMinute'), view.field(p, LT, 'mSecond'))


def ld_is_error(yt, m, d):
    """isError as documented: yearTiny sentinel, month outside [1,12], day outside [1,31]."""
    return z3.Or(yt == z3.BitVecVal(-128, 8), z3.ULT(d, 1), z3.UGT(d, 31), z3.ULT(m, 1), z3.UGT(m, 12))


def lt_is_error(h, mi, s):
    """documented: valid iff 00:00:00..23:59:59 or exactly 24:00:00"""
    normal = z3.And(z3.ULT(h, 24), z3.ULT(mi, 60), z3.ULT(s, 60))
    midnight = z3.And(h == 24, mi == 0, s == 0)
    return z3.Not(z3.Or(normal, midnight))


def year32(yt):
    return sx(yt) + bv32(2000)


def dfc_fields(yt, m, d):
    return spec.days_from_civil(year32(yt), zx(m), zx(d))


def valid_fields(yt, m, d):
    return z3.And(yt != z3.BitVecVal(-128, 8), spec.valid_ymd(year32(yt), zx(m), zx(d)))


def month_cases(mf):
    """case split by month value (1..12 and 'other')"""
    return lambda c: [('m%d' % k, mf(c) == k) for k in range(1, 13)] + [('mx', z3.Or(z3.ULT(mf(c), 1), z3.UGT(mf(c), 12)))]


def range_cases(vf, lo, hi, n):
    def f(c):
        v = vf(c)
        step = (hi - lo) // n + 1
        cs = [('below', v < lo), ('above', v > hi)]
        for k in range(n):
            a = lo + k * step
            b = min(a + step - 1, hi)
            cs.append(('r%d' % k, z3.And(v >= a, v <= b)))
        return cs
    return f


# ---- LocalDate ------------------------------------------------------------------

contract('ace_time::LocalDate::isLeapYear(short)', pure=True, props=['C06'],
         requires=lambda c: [c.args[0] >= 1],
         ensures=lambda c: [('leap', (c.result == 1) == spec.is_leap(sx(c.args[0])))])

contract('ace_time::LocalDate::isYearValid(short)', pure=True, props=['C06'],
         ensures=lambda c: [('range', (c.result == 1) == z3.And(c.args[0] >= 1873, c.args[0] <= 2127))])

contract('ace_time::LocalDate::daysInMonth(short, unsigned char)', pure=True, props=['C06'],
         requires=lambda c: [c.args[0] >= 1, z3.UGE(c.args[1], 1), z3.ULE(c.args[1], 12)],
         ensures=lambda c: [('dim', zx(c.result) == spec.days_in_month(sx(c.args[0]), zx(c.args[1])))])

contract('ace_time::LocalDate::isError() const', pure=True, props=['C06'],
         ensures=lambda c: [('iff', (c.result == 1) == ld_is_error(*ld_fields(c.old, c.this)))])


def _toEpochDays_post(c):
    yt, m, d = ld_fields(c.old, c.this)
    err = ld_is_error(yt, m, d)
    return [('error-sentinel', z3.Implies(err, c.result == bv32(INT32_MIN))),
            ('gregorian-count', z3.Implies(z3.Not(err), c.result == dfc_fields(yt, m, d)))]


contract('ace_time::LocalDate::toEpochDays() const', pure=True, props=['C06'], ensures=_toEpochDays_post,
         cases=[('m%d' % k, (lambda k: lambda c: ld_fields(c.old, c.this)[1] == k)(k)) for k in range(1, 13)]
         + [('merr', lambda c: z3.Or(z3.ULT(ld_fields(c.old, c.this)[1], 1), z3.UGT(ld_fields(c.old, c.this)[1], 12)))])


def _extract_pre(c):
    n = c.args[0]
    y, m, d = c.args[1], c.args[2], c.args[3]
    return [disjoint(c.ex, y, 2, m, 1), disjoint(c.ex, y, 2, d, 1), disjoint(c.ex, m, 1, d, 1)]


def _extract_post(c):
    n = c.args[0]
    y = c.new.load(c.args[1], 2)
    m = c.new.load(c.args[2], 1)
    d = c.new.load(c.args[3], 1)
    inr = z3.And(n >= MIN_DAYS, n <= MAX_DAYS)
    return [('year-range', z3.Implies(inr, z3.And(y >= 1873, y <= 2127))),
            ('valid', z3.Implies(inr, spec.valid_ymd(sx(y), zx(m), zx(d)))),
            ('inverse', z3.Implies(inr, spec.days_from_civil(sx(y), zx(m), zx(d)) == n))]


def _extract_cases(c):
    n = c.args[0]
    step = (MAX_DAYS - MIN_DAYS) // 16 + 1
    cs = [('out', z3.Or(n < MIN_DAYS, n > MAX_DAYS))]
    for k in range(16):
        lo = MIN_DAYS + k * step
        cs.append(('r%d' % k, z3.And(n >= lo, n < lo + step)))
    return cs


contract('ace_time::LocalDate::extractYearMonthDay(int, short&, unsigned char&, unsigned char&)', props=['C06'],
         lang_requires=_extract_pre, ensures=_extract_post, cases=_extract_cases,
         assigns=lambda c: [(c.args[1], 2), (c.args[2], 1), (c.args[3], 1)])


def _forComponents_post(c):
    y, m, d = c.args
    r = c.result
    ok = z3.And(y >= 1873, y <= 2127)
    return [('year', byte(r, 0) == z3.If(ok, z3.Extract(7, 0, y - 2000), z3.BitVecVal(-128, 8))),
            ('month', byte(r, 1) == m), ('day', byte(r, 2) == d)]


contract('ace_time::LocalDate::forComponents(short, unsigned char, unsigned char)', pure=True, props=['C06'],
         ensures=_forComponents_post)


def _forEpochDays_post(c):
    n = c.args[0]
    yt, m, d = byte(c.result, 0), byte(c.result, 1), byte(c.result, 2)
    inr = z3.And(n >= MIN_DAYS, n <= MAX_DAYS)
    return [('sentinel', z3.Implies(n == bv32(INT32_MIN), z3.And(yt == z3.BitVecVal(-128, 8), m == 0, d == 0))),
            ('valid', z3.Implies(inr, valid_fields(yt, m, d))),
            ('inverse', z3.Implies(inr, dfc_fields(yt, m, d) == n))]


contract('ace_time::LocalDate::forEpochDays(int)', pure=True, props=['C06'], ensures=_forEpochDays_post)


def floor_div_86400(s):
    """floor(s / 86400) for a 32-bit s, as a 32-bit term (spec, via a positive shift)."""
    s64 = sx(s, 64) + z3.BitVecVal(86400 * 30000, 64)
    return z3.Extract(31, 0, z3.UDiv(s64, z3.BitVecVal(86400, 64)) - z3.BitVecVal(30000, 64))


def _ld_forEpochSeconds_post(c):
    s = c.args[0]
    yt, m, d = byte(c.result, 0), byte(c.result, 1), byte(c.result, 2)
    ok = s != bv32(INT32_MIN)
    return [('sentinel', z3.Implies(z3.Not(ok), ld_is_error(yt, m, d))),
            ('valid', z3.Implies(ok, valid_fields(yt, m, d))),
            ('floor-day', z3.Implies(ok, dfc_fields(yt, m, d) == floor_div_86400(s)))]


contract('ace_time::LocalDate::forEpochSeconds(int)', pure=True, props=['C06'], ensures=_ld_forEpochSeconds_post,
         cases=range_cases(lambda c: c.args[0], -(1 << 31) + 1, (1 << 31) - 1, 16))


def _dayOfWeek_post(c):
    yt, m, d = ld_fields(c.old, c.this)
    return [('iso', z3.Implies(valid_fields(yt, m, d), zx(c.result) == spec.iso_weekday(dfc_fields(yt, m, d))))]


contract('ace_time::LocalDate::dayOfWeek() const', pure=True, props=['C06'],
         requires=lambda c: [z3.UGE(ld_fields(c.old, c.this)[1], 1), z3.ULE(ld_fields(c.old, c.this)[1], 12)],
         ensures=_dayOfWeek_post, cases=month_cases(lambda c: ld_fields(c.old, c.this)[1]))


def _ld_toEpochSeconds_post(c):
    yt, m, d = ld_fields(c.old, c.this)
    err = ld_is_error(yt, m, d)
    return [('error-sentinel', z3.Implies(err, c.result == bv32(INT32_MIN))),
            ('value', z3.Implies(z3.Not(err), c.result == bv32(86400) * dfc_fields(yt, m, d)))]


contract('ace_time::LocalDate::toEpochSeconds() const', pure=True, props=['C06'], ensures=_ld_toEpochSeconds_post)


def _ld_compare_post(c):
    a = ld_fields(c.old, c.this)
    b = ld_fields(c.old, c.args[1])
    ka = z3.Concat(a[0] ^ 0x80, a[1], a[2])   # order-preserving key: signed year biased, then month, day
    kb = z3.Concat(b[0] ^ 0x80, b[1], b[2])
    r = c.result
    return [('lt', z3.Implies(z3.ULT(ka, kb), r == z3.BitVecVal(-1, 8))),
            ('gt', z3.Implies(z3.UGT(ka, kb), r == 1)),
            ('eq', z3.Implies(ka == kb, r == 0))]


contract('ace_time::LocalDate::compareTo(ace_time::LocalDate const&) const', pure=True, props=['C06'],
         ensures=_ld_compare_post)

# ---- LocalTime --------------------------------------------------------------------

contract('ace_time::LocalTime::isError() const', pure=True, props=['C06'],
         ensures=lambda c: [('iff', (c.result == 1) == lt_is_error(*lt_fields(c.old, c.this)))])


def _forSeconds_post(c):
    s = c.args[0]
    h, mi, se = byte(c.result, 0), byte(c.result, 1), byte(c.result, 2)
    inr = z3.And(s >= 0, s <= 86399)
    return [('sentinel', z3.Implies(s == bv32(INT32_MIN), lt_is_error(h, mi, se))),
            ('range', z3.Implies(inr, z3.And(z3.ULT(h, 24), z3.ULT(mi, 60), z3.ULT(se, 60)))),
            ('value', z3.Implies(inr, zx(h) * 3600 + zx(mi) * 60 + zx(se) == s))]


contract('ace_time::LocalTime::forSeconds(int)', pure=True, props=['C06'], ensures=_forSeconds_post)


def _lt_toSeconds_post(c):
    h, mi, se = lt_fields(c.old, c.this)
    err = lt_is_error(h, mi, se)
    return [('error-sentinel', z3.Implies(err, c.result == bv32(INT32_MIN))),
            ('value', z3.Implies(z3.Not(err), c.result == zx(h) * 3600 + zx(mi) * 60 + zx(se)))]


contract('ace_time::LocalTime::toSeconds() const', pure=True, props=['C06'], ensures=_lt_toSeconds_post)


def _lt_compare_post(c):
    a = lt_fields(c.old, c.this)
    b = lt_fields(c.old, c.args[1])
    ka = z3.Concat(*a)
    kb = z3.Concat(*b)
    r = c.result
    return [('lt', z3.Implies(z3.ULT(ka, kb), r == z3.BitVecVal(-1, 8))),
            ('gt', z3.Implies(z3.UGT(ka, kb), r == 1)),
            ('eq', z3.Implies(ka == kb, r == 0))]


contract('ace_time::LocalTime::compareTo(ace_time::LocalTime const&) const', pure=True, props=['C06'],
         ensures=_lt_compare_post)

# ---- LocalDateTime ------------------------------------------------------------------


def ldt_fields(view, p):
    off_d, _ = view.ex.mod.field(LDT, 'mLocalDate')
    off_t, _ = view.ex.mod.field(LDT, 'mLocalTime')
    return ld_fields(view, view.ex.ptr_add(p, off_d)) + lt_fields(view, view.ex.ptr_add(p, off_t))


def ldt_result_fields(r):
    return tuple(byte(r, k) for k in range(6))


def ldt_is_error(f):
    return z3.Or(ld_is_error(*f[:3]), lt_is_error(*f[3:]))


def ldt_valid(f):
    """the fields denote a real calendar date and a time 00:00:00-23:59:59"""
    return z3.And(valid_fields(*f[:3]), z3.ULT(f[3], 24), z3.ULT(f[4], 60), z3.ULT(f[5], 60))


def ldt_seconds64(f):
    """exact epoch seconds of the fields as a 64-bit term (no overflow possible)"""
    return (sx(dfc_fields(*f[:3]), 64) * 86400 + zx(f[3], 64) * 3600 + zx(f[4], 64) * 60 + zx(f[5], 64))


contract('ace_time::LocalDateTime::isError() const', pure=True, props=['C06'],
         ensures=lambda c: [('iff', (c.result == 1) == ldt_is_error(ldt_fields(c.old, c.this)))])


def _ldt_forEpochSeconds_post(c):
    s = c.args[0]
    f = ldt_result_fields(c.result)
    ok = s != bv32(INT32_MIN)
    return [('sentinel', z3.Implies(z3.Not(ok), ldt_is_error(f))),
            ('valid', z3.Implies(ok, ldt_valid(f))),
            ('inverse', z3.Implies(ok, ldt_seconds64(f) == sx(s, 64)))]


contract('ace_time::LocalDateTime::forEpochSeconds(int)', pure=True, props=['C06'], ensures=_ldt_forEpochSeconds_post,
         cases=range_cases(lambda c: c.args[0], -(1 << 31) + 1, (1 << 31) - 1, 16))


def _ldt_toEpochSeconds_post(c):
    f = ldt_fields(c.old, c.this)
    err = ldt_is_error(f)
    return [('error-sentinel', z3.Implies(err, c.result == bv32(INT32_MIN))),
            ('value', z3.Implies(z3.Not(err), c.result == z3.Extract(31, 0, ldt_seconds64(f))))]


contract('ace_time::LocalDateTime::toEpochSeconds() const', pure=True, props=['C06'], ensures=_ldt_toEpochSeconds_post)


def _ldt_toEpochDays_post(c):
    f = ldt_fields(c.old, c.this)
    err = ldt_is_error(f)
    return [('error-sentinel', z3.Implies(err, c.result == bv32(INT32_MIN))),
            ('value', z3.Implies(z3.Not(err), c.result == dfc_fields(*f[:3])))]


contract('ace_time::LocalDateTime::toEpochDays() const', pure=True, props=['C06'], ensures=_ldt_toEpochDays_post)

# ---- one-day mutators ------------------------------------------------------------------

INC = 'ace_time::local_date_mutation::incrementOneDay(ace_time::LocalDate&)'
DEC = 'ace_time::local_date_mutation::decrementOneDay(ace_time::LocalDate&)'


def _inc_post(c):
    o = ld_fields(c.old, c.args[0])
    n = ld_fields(c.new, c.args[0])
    valid = valid_fields(*o)
    last = z3.And(o[0] == 127, o[1] == 12, o[2] == 31)
    return [('successor', z3.Implies(z3.And(valid, z3.Not(last)),
                                     z3.And(valid_fields(*n), dfc_fields(*n) == dfc_fields(*o) + 1))),
            ('past-end-is-error', z3.Implies(z3.And(valid, last), ld_is_error(*n)))]


def _dec_post(c):
    o = ld_fields(c.old, c.args[0])
    n = ld_fields(c.new, c.args[0])
    valid = valid_fields(*o)
    first = z3.And(o[0] == z3.BitVecVal(-127, 8), o[1] == 1, o[2] == 1)
    return [('predecessor', z3.Implies(z3.And(valid, z3.Not(first)),
                                       z3.And(valid_fields(*n), dfc_fields(*n) == dfc_fields(*o) - 1))),
            ('past-start-is-error', z3.Implies(z3.And(valid, first), ld_is_error(*n)))]


def _month_ok(c):
    m = ld_fields(c.old, c.args[0])[1]
    return [z3.UGE(m, 1), z3.ULE(m, 12)]


contract(INC, props=['C06'], requires=_month_ok, ensures=_inc_post, assigns=lambda c: [(c.args[0], 3)])
contract(DEC, props=['C06'], requires=_month_ok, ensures=_dec_post, assigns=lambda c: [(c.args[0], 3)])

# one-line accessors / constructors: executed in place (still the real code)
for nm in ['ace_time::LocalDate::year() const', 'ace_time::LocalDate::yearTiny() const',
           'ace_time::LocalDate::month() const', 'ace_time::LocalDate::day() const',
           'ace_time::LocalDate::yearTiny(signed char)', 'ace_time::LocalDate::month(unsigned char)',
           'ace_time::LocalDate::day(unsigned char)', 'ace_time::LocalDate::year(short)',
           'ace_time::LocalDate::LocalDate()', 'ace_time::LocalDate::LocalDate(signed char, unsigned char, unsigned char)',
           'ace_time::LocalDate::forError()', 'ace_time::LocalDate::forTinyComponents(signed char, unsigned char, unsigned char)',
           'ace_time::LocalTime::LocalTime()', 'ace_time::LocalTime::LocalTime(unsigned char, unsigned char, unsigned char)',
           'ace_time::LocalTime::forError()', 'ace_time::LocalTime::forComponents(unsigned char, unsigned char, unsigned char)',
           'ace_time::LocalDateTime::LocalDateTime(ace_time::LocalDate const&, ace_time::LocalTime const&)',
           ]:
    contract(nm, transparent=True)


# ==============================================================================
# Lemmas for C06 (statements over the contracts above and the spec functions)
# ==============================================================================
from .reg import LemmaOb, instantiate, obj_at  # noqa: E402

TOED = 'ace_time::LocalDate::toEpochDays() const'
FORED = 'ace_time::LocalDate::forEpochDays(int)'
LDT_FES = 'ace_time::LocalDateTime::forEpochSeconds(int)'
LDT_TES = 'ace_time::LocalDateTime::toEpochSeconds() const'


@lemma('C06')
def spec_is_gregorian(ex):
    """days_from_civil obeys the successor law of the proleptic Gregorian calendar and is 0 at
    2000-01-01: this characterises it uniquely (Int sort, all years 1..9999)."""
    y, m, d = z3.Ints('y m d')
    dom = [y >= 1, y <= 9999, m >= 1, m <= 12, d >= 1]
    dim = spec.days_in_month(y, m)
    dfc = spec.days_from_civil
    return [
        LemmaOb('spec-epoch', [], dfc(z3.IntVal(2000), z3.IntVal(1), z3.IntVal(1)) == 0),
        LemmaOb('spec-next-day', dom + [d < dim], dfc(y, m, d + 1) == dfc(y, m, d) + 1),
        LemmaOb('spec-next-month', dom + [m < 12, d == dim], dfc(y, m + 1, z3.IntVal(1)) == dfc(y, m, d) + 1),
        LemmaOb('spec-next-year', dom + [m == 12, d == 31], dfc(y + 1, z3.IntVal(1), z3.IntVal(1)) == dfc(y, m, d) + 1),
        LemmaOb('spec-dim-range', dom, z3.And(dim >= 28, dim <= 31)),
        LemmaOb('spec-feb', [y >= 1, y <= 9999], spec.days_in_month(y, z3.IntVal(2)) == z3.If(spec.is_leap(y), 29, 28)),
        LemmaOb('spec-weekday-2000-01-01-is-saturday', [], spec.iso_weekday(z3.IntVal(0)) == 6),
        LemmaOb('spec-weekday-successor', [d >= -1000000, d <= 1000000],
                spec.iso_weekday(d + 1) == z3.If(spec.iso_weekday(d) == 7, 1, spec.iso_weekday(d) + 1)),
    ]


def _f(prefix):
    return tuple(z3.BitVec('%s_%s' % (prefix, n), 8) for n in ('yt', 'm', 'd'))


@lemma('C06')
def range_and_injectivity(ex):
    a = _f('a')
    b = _f('b')
    return [
        LemmaOb('range-of-valid-dates', [valid_fields(*a)], z3.And(dfc_fields(*a) >= MIN_DAYS, dfc_fields(*a) <= MAX_DAYS)),
        LemmaOb('range-endpoints', [], z3.And(dfc_fields(z3.BitVecVal(-127, 8), z3.BitVecVal(1, 8), z3.BitVecVal(1, 8)) == MIN_DAYS,
                                             dfc_fields(z3.BitVecVal(127, 8), z3.BitVecVal(12, 8), z3.BitVecVal(31, 8)) == MAX_DAYS)),
        LemmaOb('day-count-injective-on-valid-dates', [valid_fields(*a), valid_fields(*b), dfc_fields(*a) == dfc_fields(*b)],
                z3.And(a[0] == b[0], a[1] == b[1], a[2] == b[2]),
                cases=[('m%d' % k, a[1] == k) for k in range(1, 13)]),
        LemmaOb('valid-implies-not-isError', [valid_fields(*a)], z3.Not(ld_is_error(*a))),
    ]


@lemma('C06')
def epoch_days_round_trip(ex):
    """forEpochDays(toEpochDays(x)) == x for every valid date; toEpochDays(forEpochDays(n)) == n for n in range."""
    from vc.symex import Ptr, BV
    mem = z3.Const('lm_mem', ex.mem_sort)
    this = Ptr(None, z3.BitVec('lm_this', ex.pbits))
    f = ld_fields(__import__('vc.symex', fromlist=['MemView']).MemView(ex, {}, mem), this)
    n = z3.BitVec('lm_n', 32)
    r = z3.BitVec('lm_r', 24)
    _, post_to = instantiate(ex, TOED, [this], mem_old=mem, result=n)
    _, post_for = instantiate(ex, FORED, [n], result=r)
    g = (byte(r, 0), byte(r, 1), byte(r, 2))
    inj = z3.Implies(z3.And(valid_fields(*f), valid_fields(*g), dfc_fields(*f) == dfc_fields(*g)),
                     z3.And(f[0] == g[0], f[1] == g[1], f[2] == g[2]))
    rng = z3.Implies(valid_fields(*f), z3.And(dfc_fields(*f) >= MIN_DAYS, dfc_fields(*f) <= MAX_DAYS))
    nerr = z3.Implies(valid_fields(*f), z3.Not(ld_is_error(*f)))
    out = [LemmaOb('date->days->date is the identity',
                   post_to + post_for + [valid_fields(*f), inj, rng, nerr],
                   z3.And(f[0] == g[0], f[1] == g[1], f[2] == g[2]))]
    # other direction: n -> date -> days
    n2 = z3.BitVec('lm_n2', 32)
    r2 = z3.BitVec('lm_r2', 24)
    _, post_for2 = instantiate(ex, FORED, [n2], result=r2)
    this2 = Ptr(None, z3.BitVec('lm_this2', ex.pbits))
    mem2 = obj_at(ex, mem, this2.off, r2)
    back = z3.BitVec('lm_back', 32)
    _, post_to2 = instantiate(ex, TOED, [this2], mem_old=mem2, result=back)
    g2 = (byte(r2, 0), byte(r2, 1), byte(r2, 2))
    nerr2 = z3.Implies(valid_fields(*g2), z3.Not(ld_is_error(*g2)))
    out.append(LemmaOb('days->date->days is the identity',
                       post_for2 + post_to2 + [n2 >= MIN_DAYS, n2 <= MAX_DAYS, nerr2], back == n2))
    return out


@lemma('C06')
def epoch_seconds_round_trip(ex):
    """for every s != sentinel: forEpochSeconds(s) has valid fields and toEpochSeconds() gives s back."""
    from vc.symex import Ptr
    mem = z3.Const('lm_mem', ex.mem_sort)
    s = z3.BitVec('lm_s', 32)
    r = z3.BitVec('lm_ldt', 48)
    _, post_f = instantiate(ex, LDT_FES, [s], result=r)
    this = Ptr(None, z3.BitVec('lm_this', ex.pbits))
    mem2 = obj_at(ex, mem, this.off, r)
    back = z3.BitVec('lm_back', 32)
    _, post_t = instantiate(ex, LDT_TES, [this], mem_old=mem2, result=back)
    f = ldt_result_fields(r)
    nerr = z3.Implies(ldt_valid(f), z3.Not(ldt_is_error(f)))
    T = z3.BitVec('lm_T', 64)
    return [LemmaOb('seconds->fields->seconds is the identity', post_f + post_t + [s != bv32(INT32_MIN), nerr], back == s,
                    abstract=[(ldt_seconds64(f), T)]),
            LemmaOb('valid-datetime-implies-not-isError', [ldt_valid(f)], z3.Not(ldt_is_error(f)))]


@lemma('C06')
def one_day_mutators_inverse(ex):
    """decrementOneDay(incrementOneDay(x)) == x and vice versa, from the two contracts."""
    from vc.symex import Ptr
    mem0 = z3.Const('lm_mem', ex.mem_sort)
    mem1 = z3.Const('lm_mem1', ex.mem_sort)
    mem2 = z3.Const('lm_mem2', ex.mem_sort)
    p = Ptr(None, z3.BitVec('lm_ld', ex.pbits))
    MV = __import__('vc.symex', fromlist=['MemView']).MemView
    a, b, cc = (ld_fields(MV(ex, {}, m), p) for m in (mem0, mem1, mem2))
    pre_i, post_i = instantiate(ex, INC, [p], mem_old=mem0, mem_new=mem1)
    pre_d, post_d = instantiate(ex, DEC, [p], mem_old=mem1, mem_new=mem2)
    inj = z3.Implies(z3.And(valid_fields(*a), valid_fields(*cc), dfc_fields(*a) == dfc_fields(*cc)),
                     z3.And(a[0] == cc[0], a[1] == cc[1], a[2] == cc[2]))
    first = lambda x: z3.And(x[0] == z3.BitVecVal(-127, 8), x[1] == 1, x[2] == 1)
    last = lambda x: z3.And(x[0] == 127, x[1] == 12, x[2] == 31)
    ends = z3.And(dfc_fields(z3.BitVecVal(-127, 8), z3.BitVecVal(1, 8), z3.BitVecVal(1, 8)) == MIN_DAYS,
                  z3.Implies(valid_fields(*a), dfc_fields(*a) >= MIN_DAYS), z3.Implies(valid_fields(*a), dfc_fields(*a) <= MAX_DAYS),
                  dfc_fields(z3.BitVecVal(127, 8), z3.BitVecVal(12, 8), z3.BitVecVal(31, 8)) == MAX_DAYS)
    out = [LemmaOb('dec(inc(x)) == x', post_i + post_d + [valid_fields(*a), z3.Not(last(a)), inj, ends,
                                                           z3.Implies(valid_fields(*b), z3.And(z3.UGE(b[1], 1), z3.ULE(b[1], 12)))],
                   z3.And(*(pre_d + [a[0] == cc[0], a[1] == cc[1], a[2] == cc[2]])),
                   cases=[('m%d' % k, a[1] == k) for k in range(1, 13)])]
    pre_d2, post_d2 = instantiate(ex, DEC, [p], mem_old=mem0, mem_new=mem1)
    pre_i2, post_i2 = instantiate(ex, INC, [p], mem_old=mem1, mem_new=mem2)
    out.append(LemmaOb('inc(dec(x)) == x', post_d2 + post_i2 + [valid_fields(*a), z3.Not(first(a)), inj, ends,
                                                                z3.Implies(valid_fields(*b), z3.And(z3.UGE(b[1], 1), z3.ULE(b[1], 12)))],
                       z3.And(*(pre_i2 + [a[0] == cc[0], a[1] == cc[1], a[2] == cc[2]])),
                       cases=[('m%d' % k, a[1] == k) for k in range(1, 13)]))
    return out
