"""C13 -- SystemClock keeps exact time from millis() (ghost time)."""
import z3
from .reg import contract, lemma, bv32, sx, zx, byte, INT32_MIN, LemmaOb, instantiate, U, S
from vc.symex import LoopSpec, Contract, Ptr, BV
from . import reg as _reg

SC = 'ace_time::clock::SystemClock'
INVALID = bv32(INT32_MIN)
# ghost (true) time is an unbounded mathematical integer (milliseconds); obligations that mention it are
# discharged in the integer abstraction of vc/intblast.py


def is_init(f):
    """mIsInit as the code reads it (a valid bool is 0 or 1; clang truncates the byte to its low bit)"""
    return z3.Extract(0, 0, f['I']) == 1


def ghost_init(ex, st):
    # true elapsed milliseconds since boot (unbounded: 64 bits never wrap in the lemmas' ranges),
    # and value / true time of the last effective set
    st.ghost['now'] = z3.Int('gh_now')
    st.ghost['T0'] = z3.BitVec('gh_T0', 32)
    st.ghost['M0'] = z3.Int('gh_M0')
    st.pc.append(st.ghost['M0'] >= 0)
    st.pc.append(st.ghost['M0'] <= st.ghost['now'])


def fields(view, this):
    f = lambda n: view.field(this, SC, n)
    return dict(E=f('mEpochSeconds'), L=f('mLastSyncTime'), P=f('mPrevMillis'), I=f('mIsInit'),
                ref=f('mReferenceClock'), bak=f('mBackupClock'))


def folded(g, E):
    """true time (ms) already folded into mEpochSeconds: M0 + 1000 * (E - T0)"""
    return g['M0'] + 1000 * (S(E) - S(g['T0']))


def residual(g, E):
    return g['now'] - folded(g, E)


def inv_clauses(g, f):
    return [('seconds-not-before-set-point', f['E'] >= g['T0']),
            ('phase', U(f['P']) == folded(g, f['E']) % 65536),
            ('not-ahead-of-true-time', folded(g, f['E']) <= g['now'])]


def inv(g, f):
    """class invariant under ghost time"""
    return z3.And([e for _, e in inv_clauses(g, f)])


def exact(g, R):
    """R == T0 + floor((now - M0) / 1000), stated without division:
       1000 (R - T0) <= now - M0 < 1000 (R - T0) + 1000   (R a 32-bit value, T0 <= R)"""
    d = S(R) - S(g['T0'])
    el = g['now'] - g['M0']
    return z3.And(d >= 0, 1000 * d <= el, el < 1000 * d + 1000)


def representable(g):
    """the exact reading fits acetime_t: T0 + (now - M0)/1000 <= INT32_MAX, stated without division"""
    return g['now'] - g['M0'] < 1000 * (((1 << 31) - 1) - S(g['T0'])) + 1000


# the environment: clockMillis() returns the low 32 bits of true time (Arduino millis() is a 32-bit counter;
# this covers both the 16-bit and the 32-bit wrap), and does not advance during one call
contract('virtual ace_time::clock::SystemClock::clockMillis() const', extern=True,
         model=lambda ex, st, c: (z3.Int2BV(st.ghost['now'], 64) if st.ghost.get('millis_bits') == 64
                                  else z3.ZeroExt(32, z3.Int2BV(st.ghost['now'], 32))) if ex.pbits == 64 else z3.Int2BV(st.ghost['now'], 32),
         note='ASSUMED: clockMillis() == now mod 2^32, constant during one call')


def _log_call(tag):
    def model(ex, st, c):
        st.log.append((tag, ex.ptr_to_bv(c.args[0]), [a for a in c.args[1:]]))
        return None
    return model


contract('virtual ace_time::clock::Clock::setNow(int)', extern=True, model=_log_call('setNow'),
         note='ASSUMED: reference/backup Clock objects are distinct from the SystemClock and do not modify it')


def _get_now_model(ex, st, c):
    st.log.append(('getNow', ex.ptr_to_bv(c.args[0]), []))
    r = ex.fresh('clock_getNow', 32)
    st.ghost = dict(st.ghost)
    st.ghost.setdefault('getNow_results', [])
    st.ghost['getNow_results'] = st.ghost['getNow_results'] + [r]
    return r


contract('virtual ace_time::clock::Clock::getNow() const', extern=True, model=_get_now_model,
         note='ASSUMED: returns an arbitrary value')


def _getnow_pre(c):
    g = c.ghost
    f = fields(c.old, c.this)
    init = is_init(f)
    return [z3.ULE(f['I'], 1),
            z3.Implies(init, inv(g, f)),
            # the polling hypothesis: at most 65535 ms not yet folded in (gap <= 64536 + carried remainder < 1000)
            z3.Implies(init, residual(g, f['E']) <= 65535),
            # result representable
            z3.Implies(init, representable(g))]


def _getnow_post(c):
    g = c.ghost
    o = fields(c.old, c.this)
    n = fields(c.new, c.this)
    init = is_init(o)
    return [('uninitialised-reports-sentinel', z3.Implies(z3.Not(init), z3.And(c.result == INVALID, n['E'] == o['E'], n['P'] == o['P']))),
            ('exact-time', z3.Implies(init, exact(g, c.result))),
            ('invariant', z3.Implies(init, inv(g, n))),
            ('remainder-below-1000', z3.Implies(init, residual(g, n['E']) < 1000)),
            ('returns-the-field', z3.Implies(init, c.result == n['E'])),
            ('other-fields-untouched', z3.And(n['I'] == o['I'], n['L'] == o['L']))]


def _getnow_loop_inv(L):
    g = L.st.ghost
    f = fields(L.mem, L.c.this)
    return inv_clauses(g, f) + [
            ('below-int32-max-while-behind', z3.Implies(residual(g, f['E']) >= 1000, f['E'] < bv32((1 << 31) - 1))),
            ('residual-fits-16-bits', residual(g, f['E']) <= 65535),
            ('representable', representable(g)),
            ('initialised', f['I'] == 1)]


def _assigns_time(c):
    return [c.field_addr(c.this, SC, 'mEpochSeconds'), c.field_addr(c.this, SC, 'mPrevMillis')]


contract('ace_time::clock::SystemClock::getNow() const', props=['C13'], ghost_init=ghost_init, logic='int',
         requires=_getnow_pre, ensures=_getnow_post, assigns=_assigns_time,
         loops={0: LoopSpec(_getnow_loop_inv, variant=lambda L: residual(L.st.ghost, fields(L.mem, L.c.this)['E']))})


def _sync_post(c):
    g = c.ghost
    o = fields(c.old, c.this)
    n = fields(c.new, c.this)
    T = c.args[1]
    sentinel = T == INVALID
    # after an effective set the ghost set point is (T, now)
    g2 = dict(g, T0=T, M0=g['now'])
    backup_calls = [e for e in c.log if e[0] == 'setNow' and len(e) == 3]
    expected = z3.And(z3.Not(sentinel), o['bak'] != 0, o['bak'] != o['ref'], o['E'] != T)
    if len(backup_calls) == 0:
        called = z3.BoolVal(False)
        right = z3.BoolVal(True)
    else:
        called = z3.BoolVal(True)
        right = z3.And(len(backup_calls) == 1, backup_calls[0][1] == o['bak'], backup_calls[0][2][0] == T)
    return [('sentinel-ignored', z3.Implies(sentinel, z3.And(n['E'] == o['E'], n['L'] == o['L'], n['P'] == o['P'], n['I'] == o['I']))),
            ('time-set', z3.Implies(z3.Not(sentinel), n['E'] == T)),
            ('phase-reset-to-now', z3.Implies(z3.Not(sentinel), U(n['P']) == g['now'] % 65536)),
            ('invariant-with-new-set-point', z3.Implies(z3.Not(sentinel), inv(g2, n))),
            ('initialised', z3.Implies(z3.Not(sentinel), n['I'] == 1)),
            ('last-sync-time', z3.Implies(z3.Not(sentinel), n['L'] == T)),
            ('backup-gets-value-iff-distinct-and-changed', z3.And(called == expected, right))]


def _sync_pre(c):
    f = fields(c.old, c.this)
    # class invariant of the uninitialised state: never set => mEpochSeconds still holds the sentinel
    return [z3.ULE(f['I'], 1), z3.Implies(f['I'] == 0, f['E'] == INVALID)]


def _assigns_all(c):
    return [c.field_addr(c.this, SC, n) for n in ('mEpochSeconds', 'mLastSyncTime', 'mPrevMillis', 'mIsInit')]


contract('ace_time::clock::SystemClock::syncNow(int)', props=['C13'], ghost_init=ghost_init, logic='int',
         requires=_sync_pre, ensures=_sync_post, assigns=_assigns_all)
# its backup-clock clause speaks about the calls made during its own call: inside setNow() / loop() it is executed in place
_reg.REG['ace_time::clock::SystemClock::syncNow(int)'].inline_in_callers = True
# the ghost store of the clock contracts is the environment (the millisecond counter, the last set point), not a per-call history
_reg.REG['ace_time::clock::SystemClock::getNow() const'].call_site_reads = ('ghost',)


def _setnow_post(c):
    o = fields(c.old, c.this)
    T = c.args[1]
    posts = [(l, e) for l, e in _sync_post_nolog(c)]
    ref_calls = [e for e in c.log if e[0] == 'setNow' and e[1] is not None]
    return posts


def _sync_post_nolog(c):
    return [(l, e) for l, e in _sync_post(c) if not l.startswith('backup')]


def _setnow_post2(c):
    o = fields(c.old, c.this)
    T = c.args[1]
    out = _sync_post_nolog(c)
    calls = [e for e in c.log if e[0] == 'setNow' and len(e) == 3]
    # the reference clock, when present, is set to the same value (last call in the log)
    if calls:
        last = calls[-1]
        out.append(('reference-set', z3.Implies(o['ref'] != 0, z3.And(last[1] == o['ref'], last[2][0] == T))))
    else:
        out.append(('reference-set', o['ref'] == 0))
    return out


contract('ace_time::clock::SystemClock::setNow(int)', props=['C13'], ghost_init=ghost_init, logic='int',
         requires=_sync_pre, ensures=_setnow_post2, assigns=_assigns_all)

contract('ace_time::clock::SystemClock::isInit() const', pure=True, props=['C13'],
         requires=lambda c: [z3.ULE(fields(c.old, c.this)['I'], 1)],
         ensures=lambda c: [('flag', (c.result == 1) == (fields(c.old, c.this)['I'] == 1))])
contract('ace_time::clock::SystemClock::getLastSyncTime() const', pure=True, props=['C13'],
         ensures=lambda c: [('field', c.result == fields(c.old, c.this)['L'])])


def _ctor_post(c):
    n = fields(c.new, c.this)
    return [('starts-uninitialised', z3.And(n['I'] == 0, n['E'] == INVALID, n['L'] == INVALID)),
            ('clocks', z3.And(n['ref'] == c.ex.ptr_to_bv(c.args[1]), n['bak'] == c.ex.ptr_to_bv(c.args[2])))]


contract('ace_time::clock::SystemClock::SystemClock(ace_time::clock::Clock*, ace_time::clock::Clock*)', props=['C13'],
         ensures=_ctor_post, assigns=lambda c: [(c.this, 40)])


# ---- lemmas: the statement of C13 from the contracts -------------------------------------------

def _sym_state(ex, tag):
    mem = z3.Const('lm_mem_' + tag, ex.mem_sort)
    return mem


@lemma('C13')
def exact_time_over_any_schedule(ex):
    """Induction over a polling schedule: (base) after an effective syncNow the precondition of getNow holds
    with residual 0; (step) after any getNow, a next poll at most 64536 ms later satisfies getNow's precondition
    again with the same set point; the value returned is T0 + floor((now - M0)/1000) each time."""
    from vc.symex import MemView
    this = Ptr(None, z3.BitVec('lm_this', ex.pbits))
    g = dict(now=z3.Int('gh_now'), T0=z3.BitVec('gh_T0', 32), M0=z3.Int('gh_M0'))
    mem0, mem1 = z3.Const('lm_mem0', ex.mem_sort), z3.Const('lm_mem1', ex.mem_sort)
    T = z3.BitVec('lm_T', 32)
    out = []
    # base: syncNow(T) at time now  ==> state satisfies getNow's requires at any later now2 <= now + 65535
    REGS = __import__('contracts.reg', fromlist=['REG']).REG
    sync = REGS['ace_time::clock::SystemClock::syncNow(int)']
    getn = REGS['ace_time::clock::SystemClock::getNow() const']
    from vc.symex import Ctx

    def ctx(args, old, new=None, result=None, ghost=None, log=()):
        c = Ctx(ex, None, args, MemView(ex, {}, old), new=MemView(ex, {}, new if new is not None else old), result=result)
        c.ghost = ghost
        c.log = list(log)
        return c
    # the log content does not matter for the time lemmas: take the variant without the backup clause
    post_sync = [e for l, e in sync.ensures(ctx([this, T], mem0, mem1, ghost=g)) if not l.startswith('backup')]
    now2 = z3.Int('lm_now2')
    g_after = dict(now=now2, T0=T, M0=g['now'])
    pre_get = getn.requires(ctx([this], mem1, ghost=g_after))
    pre_sync = sync.requires(ctx([this, T], mem0, ghost=g))
    small = pre_sync + [g['now'] >= 0, g['now'] <= now2, now2 - g['now'] <= 65535, T != INVALID,
             T <= bv32((1 << 31) - 1 - 66)]
    out.append(LemmaOb('base: after set(T) at m0, any poll within 65535 ms meets getNow\'s precondition',
                       post_sync + small, z3.And(*pre_get), logic='int'))
    # step: after getNow at now (same set point), a poll at now2 <= now + 64536 meets the precondition again
    r = z3.BitVec('lm_r', 32)
    post_get = [e for l, e in getn.ensures(ctx([this], mem0, mem1, result=r, ghost=g))]
    init_old = fields(MemView(ex, {}, mem0), this)['I'] == 1
    g2 = dict(g, now=now2)
    pre_get2 = getn.requires(ctx([this], mem1, ghost=g2))
    hyp = [init_old, g['M0'] >= 0, g['M0'] <= g['now'], g['now'] <= now2, now2 - g['now'] <= 64536, representable(g2)]
    out.append(LemmaOb('step: after a reading, the next poll within 64536 ms meets getNow\'s precondition',
                       post_get + hyp, z3.And(*pre_get2), logic='int'))
    # monotone between settings
    a, b = z3.Int('lm_a'), z3.Int('lm_b')
    ra, rb = z3.BitVec('lm_ra', 32), z3.BitVec('lm_rb', 32)
    ga, gb = dict(g, now=a), dict(g, now=b)
    out.append(LemmaOb('readings never decrease between settings',
                       [g['M0'] <= a, a <= b, exact(ga, ra), exact(gb, rb)],
                       ra <= rb, logic='int'))
    # the relational spec determines the reading uniquely (so "exact-time" pins the value down)
    rc = z3.BitVec('lm_rc', 32)
    out.append(LemmaOb('the exact reading is unique', [g['M0'] <= a, exact(ga, ra), exact(ga, rc)], ra == rc, logic='int'))
    return out


# ==============================================================================
# C14 -- SystemClockLoop::loop() as a transition relation
# ==============================================================================
SCL = 'ace_time::clock::SystemClockLoop'
READY, SENT, OK, RETRY = 0, 1, 2, 3


def _log_clock(tag, bits):
    def model(ex, st, c):
        p = ex.ptr_to_bv(c.args[0])
        r = None
        if bits:
            r = ex.fresh('ref_' + tag, bits)
        st.log.append((tag, p, [r]))
        return r
    return model


contract('virtual ace_time::clock::Clock::sendRequest() const', extern=True, model=_log_clock('sendRequest', 0),
         note='ASSUMED: reference clock is an environment object; says nothing beyond its signature')
contract('virtual ace_time::clock::Clock::isResponseReady() const', extern=True, model=_log_clock('isResponseReady', 1))
contract('virtual ace_time::clock::Clock::readResponse() const', extern=True, model=_log_clock('readResponse', 32))
contract('ace_common::TimingStats::update(unsigned short)', extern=True, model=_log_clock('timingStats', 0),
         note='ASSUMED: external AceCommon statistics object, does not touch the clock')


def lfields(view, this):
    f = lambda n: view.field(this, SCL, n)
    d = fields(view, this)
    d.update(sync=f('mSyncPeriodSeconds'), timeout=f('mRequestTimeoutMillis'), stats=f('mTimingStats'),
             lastms=f('mLastSyncMillis'), startms=f('mRequestStartMillis'), cur=f('mCurrentSyncPeriodSeconds'),
             status=f('mRequestStatus'))
    return d


def fsm_inv(g, f):
    """state invariant of the sync machine under ghost time (clockMillis() == true time for this property)"""
    st = f['status']
    return z3.And(z3.ULE(st, 3),
                  z3.Implies(st != READY, U(f['startms']) <= g['now']),
                  z3.Implies(st == OK, z3.And(U(f['startms']) <= U(f['lastms']), U(f['lastms']) <= g['now'])))


def _loop_ghost(ex, st):
    ghost_init(ex, st)
    st.ghost['millis_bits'] = 64
    # x86-64: unsigned long is 64 bits, true time below 2^62 ms never wraps.  16-bit target: unsigned long is 32 bits; the sync
    # machine is verified there for true time below 2^32 ms (uptime under 49.7 days) -- wrap-around of the 32-bit counter inside
    # the sync machine is NOT covered by the AVR pass
    st.pc.append(st.ghost['now'] < ((1 << 62) if ex.pbits == 64 else (1 << 32)))


def _loop_pre(c):
    g = c.ghost
    f = lfields(c.old, c.this)
    return _getnow_pre(c) + _sync_pre(c) + [fsm_inv(g, f)]


def deadline(g, f, at_now=None):
    """absolute true time by which the machine is Ready again if nothing but loop() calls happen"""
    st = f['status']
    per = 1000 * U(f['cur'])
    worst = 1000 * z3.If(U(f['cur']) > U(f['sync']), U(f['cur']), U(f['sync']))
    now = g['now'] if at_now is None else at_now
    return z3.If(st == READY, now,
                 z3.If(st == SENT, U(f['startms']) + U(f['timeout']) + worst,
                       z3.If(st == OK, U(f['lastms']) + per, U(f['startms']) + per)))


def stage(f):
    st = f['status']
    return z3.If(st == READY, 0, z3.If(st == SENT, 2, 1))


def _loop_post(c):
    g = c.ghost
    o = lfields(c.old, c.this)
    n = lfields(c.new, c.this)
    now = g['now']
    ref = o['ref']
    log = c.log
    log = [e for e in log if len(e) == 3]
    sends = [e for e in log if e[0] == 'sendRequest']
    readies = [e for e in log if e[0] == 'isResponseReady']
    reads = [e for e in log if e[0] == 'readResponse']
    backups = [e for e in log if e[0] == 'setNow']
    init = is_init(o)
    out = []
    B = z3.BoolVal
    sent = B(bool(sends))
    # -- no reference clock: only keeps time
    out.append(('no-reference:no-clock-calls', z3.Implies(ref == 0, B(not (sends or readies or reads or backups)))))
    out.append(('no-reference:machine-untouched', z3.Implies(ref == 0, z3.And(n['status'] == o['status'], n['cur'] == o['cur'], n['lastms'] == o['lastms'],
                                                                              n['startms'] == o['startms'], n['L'] == o['L'], n['I'] == o['I']))))
    # -- calls go to the reference clock only
    for k, e in enumerate(sends + readies + reads):
        out.append(('calls-go-to-reference#%d' % k, e[1] == ref))
    # -- Ready: issue the request now
    out.append(('ready:sends-request', z3.Implies(z3.And(ref != 0, o['status'] == READY),
                                                  z3.And(sent, n['status'] == SENT, U(n['startms']) == now, n['cur'] == o['cur']))))
    out.append(('request-only-from-ready', z3.Implies(sent, z3.And(ref != 0, o['status'] == READY))))
    # -- Sent
    if reads:
        resp = reads[0][2][0]
        valid = resp != INVALID
        g2 = dict(g, T0=resp, M0=now)
        out.append(('valid-response:clock-reads-reference-value', z3.Implies(valid, z3.And(n['E'] == resp, U(n['P']) == now % 65536, n['I'] == 1, inv(g2, n)))))
        out.append(('valid-response:last-sync-and-period', z3.Implies(valid, z3.And(n['L'] == resp, n['cur'] == o['sync'], n['status'] == OK, U(n['lastms']) == now))))
        exp_backup = z3.And(valid, o['bak'] != 0, o['bak'] != o['ref'])
        if backups:
            out.append(('valid-response:backup-receives-value', z3.And(exp_backup, backups[0][1] == o['bak'], backups[0][2][0] == resp, B(len(backups) == 1))))
        else:
            # syncNow skips the backup only when it is the reference itself, absent, or the clock already reads that value
            eprev = c.new.field(c.this, SCL, 'mEpochSeconds')
            out.append(('valid-response:backup-skipped-only-if-same-or-unchanged', z3.Implies(exp_backup, n['E'] == resp)))
        out.append(('invalid-response:clock-and-last-sync-unchanged', z3.Implies(z3.Not(valid), z3.And(n['L'] == o['L'], n['I'] == o['I'],
                                                                                                     z3.Implies(init, inv(g, n)), n['status'] == RETRY, n['cur'] == o['cur']))))
        out.append(('response-read-only-when-sent-and-ready', z3.And(o['status'] == SENT, ref != 0)))
    else:
        # no response was read: the clock keeps its set point and last-sync time
        out.append(('no-response:clock-unchanged', z3.And(n['L'] == o['L'], n['I'] == o['I'], z3.Implies(init, inv(g, n)), B(not backups))))
        out.append(('sent:timeout-gives-retry', z3.Implies(z3.And(ref != 0, o['status'] == SENT),
                                                          z3.And(n['cur'] == o['cur'],
                                                                 n['status'] == z3.If(now - U(o['startms']) >= U(o['timeout']), z3.BitVecVal(RETRY, 8), z3.BitVecVal(SENT, 8))))))
    # -- Ok / Retry timers
    out.append(('ok:next-request-after-sync-period', z3.Implies(z3.And(ref != 0, o['status'] == OK),
                                                                z3.And(n['cur'] == o['cur'], n['status'] == z3.If(now - U(o['lastms']) >= 1000 * U(o['cur']), z3.BitVecVal(READY, 8), z3.BitVecVal(OK, 8))))))
    due = now - U(o['startms']) >= 1000 * U(o['cur'])
    backoff = z3.If(z3.UGE(o['cur'], z3.UDiv(o['sync'], z3.BitVecVal(2, 16))), o['sync'], o['cur'] * 2)
    out.append(('retry:waits-current-period-then-backs-off', z3.Implies(z3.And(ref != 0, o['status'] == RETRY),
                                                                        z3.And(n['status'] == z3.If(due, z3.BitVecVal(READY, 8), z3.BitVecVal(RETRY, 8)),
                                                                               n['cur'] == z3.If(due, backoff, o['cur'])))))
    # -- separation of consecutive requests: Ready is re-entered only a full (pre-transition) period after the last request
    out.append(('separation:ready-only-a-period-after-last-request', z3.Implies(z3.And(n['status'] == READY, o['status'] != READY),
                                                                                now - U(o['startms']) >= 1000 * U(o['cur']))))
    # -- machine invariant preserved, configuration constant
    out.append(('machine-invariant-preserved', fsm_inv(g, n)))
    out.append(('configuration-constant', z3.And(n['sync'] == o['sync'], n['timeout'] == o['timeout'], n['ref'] == o['ref'], n['bak'] == o['bak'])))
    # -- bounded re-request: the deadline never moves later unless a request was just issued, and once it has
    #    passed every call makes progress (Sent -> Retry/Ok -> Ready -> request)
    D0, D1 = deadline(g, o), deadline(g, n)
    # a response (which needs a preceding request) or a new request may re-arm the timer; nothing else moves the deadline
    if reads:
        out.append(('progress:deadline-after-response-is-one-period-from-now',
                    D1 <= z3.If(D0 < now + 1000 * U(o['sync']), now + 1000 * U(o['sync']), D0)))
    else:
        out.append(('progress:deadline-does-not-move-later', z3.Implies(z3.And(ref != 0, z3.Not(sent)), D1 <= z3.If(D0 < now, now, D0))))
    out.append(('progress:deadline-is-bounded', z3.Implies(ref != 0, D1 - now <= U(n['timeout']) + 1000 * z3.If(U(n['cur']) > U(n['sync']), U(n['cur']), U(n['sync'])))))
    out.append(('progress:after-deadline-every-call-advances', z3.Implies(z3.And(ref != 0, now >= D0), z3.Or(sent, stage(n) < stage(o)))))
    return out


def _assigns_loop(c):
    return [c.field_addr(c.this, SC, n) for n in ('mEpochSeconds', 'mLastSyncTime', 'mPrevMillis', 'mIsInit')] + \
           [c.field_addr(c.this, SCL, n) for n in ('mLastSyncMillis', 'mRequestStartMillis', 'mCurrentSyncPeriodSeconds', 'mRequestStatus')]


contract('ace_time::clock::SystemClockLoop::loop()', props=['C14'], ghost_init=_loop_ghost, logic='int',
         requires=_loop_pre, ensures=_loop_post, assigns=_assigns_loop)


def _loop_ctor_post(c):
    n = lfields(c.new, c.this)
    return [('starts-ready-and-uninitialised', z3.And(n['status'] == READY, n['I'] == 0, n['E'] == INVALID, n['L'] == INVALID)),
            ('configuration', z3.And(n['sync'] == c.args[3], n['cur'] == c.args[4], n['timeout'] == c.args[5],
                                     n['ref'] == c.ex.ptr_to_bv(c.args[1]), n['bak'] == c.ex.ptr_to_bv(c.args[2])))]


contract('ace_time::clock::SystemClockLoop::SystemClockLoop(ace_time::clock::Clock*, ace_time::clock::Clock*, unsigned short, unsigned short, unsigned short, ace_common::TimingStats*)',
         props=['C14'], ensures=_loop_ctor_post, assigns=lambda c: [(c.this, 72)])
