"""C09 -- DateStrings: the four name accessors return a NUL-terminated string inside the object's own 10-byte buffer."""
import z3
from .reg import contract, zx
from vc.symex import Ptr

DS = 'ace_time::DateStrings'
N = 10        # DateStrings::kBufferSize (checked against the member size below)


def _strncpy_model(ex, st, c):
    """ASSUMED contract of libc strncpy(dest, src, n): writes exactly n bytes at dest (characters of src up to its NUL, then NUL
    padding), nothing else; returns dest.  The n bytes are havocked: nothing is assumed about their values."""
    dest, src, n = c.args
    nn = z3.simplify(n)
    if not z3.is_bv_value(nn):
        from vc.symex import OutOfReach
        raise OutOfReach('strncpy with a symbolic length')
    k = nn.as_long()
    st.ghost = dict(st.ghost)
    st.ghost.setdefault('strncpy', [])
    st.ghost['strncpy'] = st.ghost['strncpy'] + [(dest, k)]
    for j in range(k):
        ex.store_bytes(st, ex.ptr_add(dest, j), [ex.fresh('strncpy', 8)], None)
    return dest


for _nm in ('strncpy', 'strncpy(char*, char const*, unsigned long)', 'strncpy(char*, char const*, unsigned int)'):
    contract(_nm, extern=True, model=_strncpy_model, note='ASSUMED: libc strncpy writes exactly n bytes at dest')


def _post(c):
    buf_off, buf_n = c.mod.field(DS, 'mBuffer')
    buf = c.ex.ptr_add(c.this, buf_off)
    r = c.ex.ptr_to_bv(c.result)
    return [('buffer-has-the-documented-size', z3.BoolVal(buf_n == N)),
            ('returns-its-own-buffer', r == c.ex.ptr_to_bv(buf)),
            ('terminated-inside-the-buffer', z3.Or([c.new.load(c.ex.ptr_add(buf, k), 1) == 0 for k in range(N)]))]


def _assigns(c):
    buf_off, buf_n = c.mod.field(DS, 'mBuffer')
    return [(c.ex.ptr_add(c.this, buf_off), buf_n)]


for _m in ('monthLongString', 'monthShortString', 'dayOfWeekLongString', 'dayOfWeekShortString'):
    contract('%s::%s(unsigned char)' % (DS, _m), props=['C09'], ensures=_post, assigns=_assigns)
