"""C12 -- zone tables are a faithful encoding: C++ decode == what the Python generator encoded."""
import os
import z3
from .reg import contract, lemma, bv32, sx, zx, byte, LemmaOb
from . import spec
from vc import build

# ---- decoder specs, generic over Int / bit-vector terms (field values as unsigned / signed integers) ----


def dec_time_minutes(code, modifier):
    """AT / UNTIL time in minutes: 15 * code + low nibble of the modifier (code, modifier in 0..255)"""
    return spec.K(code, 15) * code + spec.mod(modifier, 16)


def dec_suffix(modifier):
    return modifier - spec.mod(modifier, 16)


def u8(x):
    """unsigned byte value of a signed int8 field value (Int sort)"""
    return z3.If(x < 0, x + 256, x)


def dec_ext_delta_minutes(delta_code_u):
    """extended: ((deltaCode & 0x0f) - 4) * 15, deltaCode given as unsigned byte value"""
    return (spec.mod(delta_code_u, 16) - spec.K(delta_code_u, 4)) * spec.K(delta_code_u, 15)


def dec_ext_offset_minutes(offset_code_s, delta_code_u):
    """extended: offsetCode * 15 + ((deltaCode & 0xf0) >> 4)"""
    return offset_code_s * spec.K(offset_code_s, 15) + spec.div(delta_code_u, 16)


# ---- C++ decoders -----------------------------------------------------------------------------------

contract('ace_time::internal::timeCodeToMinutes(unsigned char, unsigned char)', pure=True, props=['C12'],
         ensures=lambda c: [('minutes', zx(c.result) == dec_time_minutes(zx(c.args[0]), zx(c.args[1])))])
contract('ace_time::internal::toSuffix(unsigned char)', pure=True, props=['C12'],
         ensures=lambda c: [('suffix', zx(c.result) == dec_suffix(zx(c.args[0])))])
contract('ace_time::extended::toDeltaMinutes(signed char)', pure=True, props=['C12'],
         ensures=lambda c: [('minutes', sx(c.result) == dec_ext_delta_minutes(zx(c.args[0])))])
contract('ace_time::extended::toOffsetMinutes(signed char, signed char)', pure=True, props=['C12'],
         ensures=lambda c: [('minutes', sx(c.result) == dec_ext_offset_minutes(sx(c.args[0]), zx(c.args[1])))])


def _broker(ns, cls, struct, ptrfield, method, ret_signed, spec_fn, fields):
    """accessor contract: result == spec_fn(field values read from the table entry the broker points at)"""
    full = 'ace_time::%s::%s' % (ns, cls)
    st = 'ace_time::%s::%s' % (ns, struct)

    def post(c):
        p = c.old.field_ptr(c.this, full, ptrfield)
        vals = []
        for name, signed in fields:
            v = c.old.field(p, st, name)
            vals.append(sx(v) if signed else zx(v))
        r = sx(c.result) if ret_signed else zx(c.result)
        return [('decodes-the-table-entry', r == spec_fn(*vals))]
    contract('%s::%s() const' % (full, method), pure=True, props=['C12'], ensures=post)


ident = lambda x: x
for ns in ('basic', 'extended'):
    R, E = 'ZoneRuleBroker', 'ZoneEraBroker'
    _broker(ns, R, 'ZoneRule', 'mZoneRule', 'fromYearTiny', True, ident, [('fromYearTiny', True)])
    _broker(ns, R, 'ZoneRule', 'mZoneRule', 'toYearTiny', True, ident, [('toYearTiny', True)])
    _broker(ns, R, 'ZoneRule', 'mZoneRule', 'inMonth', False, ident, [('inMonth', False)])
    _broker(ns, R, 'ZoneRule', 'mZoneRule', 'onDayOfWeek', ns == 'basic', ident, [('onDayOfWeek', ns == 'basic')])
    _broker(ns, R, 'ZoneRule', 'mZoneRule', 'onDayOfMonth', True, ident, [('onDayOfMonth', True)])
    _broker(ns, R, 'ZoneRule', 'mZoneRule', 'atTimeMinutes', False, dec_time_minutes, [('atTimeCode', False), ('atTimeModifier', False)])
    _broker(ns, R, 'ZoneRule', 'mZoneRule', 'atTimeSuffix', False, dec_suffix, [('atTimeModifier', False)])
    _broker(ns, R, 'ZoneRule', 'mZoneRule', 'letter', False, ident, [('letter', False)])
    _broker(ns, E, 'ZoneEra', 'mZoneEra', 'untilYearTiny', True, ident, [('untilYearTiny', True)])
    _broker(ns, E, 'ZoneEra', 'mZoneEra', 'untilMonth', False, ident, [('untilMonth', False)])
    _broker(ns, E, 'ZoneEra', 'mZoneEra', 'untilDay', False, ident, [('untilDay', False)])
    _broker(ns, E, 'ZoneEra', 'mZoneEra', 'untilTimeMinutes', False, dec_time_minutes, [('untilTimeCode', False), ('untilTimeModifier', False)])
    _broker(ns, E, 'ZoneEra', 'mZoneEra', 'untilTimeSuffix', False, dec_suffix, [('untilTimeModifier', False)])
    if ns == 'basic':
        _broker(ns, R, 'ZoneRule', 'mZoneRule', 'deltaMinutes', True, lambda d: d * 15, [('deltaCode', True)])
        _broker(ns, E, 'ZoneEra', 'mZoneEra', 'offsetMinutes', True, lambda o: o * 15, [('offsetCode', True)])
        _broker(ns, E, 'ZoneEra', 'mZoneEra', 'deltaMinutes', True, lambda d: d * 15, [('deltaCode', True)])
    else:
        _broker(ns, R, 'ZoneRule', 'mZoneRule', 'deltaMinutes', True, dec_ext_delta_minutes, [('deltaCode', False)])
        _broker(ns, E, 'ZoneEra', 'mZoneEra', 'offsetMinutes', True, dec_ext_offset_minutes, [('offsetCode', True), ('deltaCode', False)])
        _broker(ns, E, 'ZoneEra', 'mZoneEra', 'deltaMinutes', True, dec_ext_delta_minutes, [('deltaCode', False)])


# ---- the Python encoders (pyvc) and the cross-language round trip -----------------------------------

ARGEN = os.path.join(build.REPO, 'tools', 'zonedb', 'argenerator.py')
TRANSFORMER = os.path.join(build.REPO, 'tools', 'tzdb', 'transformer.py')
SUFFIX_VAL = {'w': 0x00, 's': 0x10, 'u': 0x20}


def encoder_obligations():
    """For every admissible value: decode_cpp(evalC(encode_py(v))) == v and the emitted value fits its field type.
    Returns list of (name, assumptions, goal)."""
    from vc.pyvc import PyExec, Template, as_int
    from vc import tables
    tr_consts = dict(PyExec(os.path.join(build.REPO, 'tools', 'tzdb', 'extractor.py')).consts)
    tr_consts.update(PyExec(TRANSFORMER).consts)
    out = []

    def ex():
        e = PyExec(ARGEN, consts=tr_consts)
        tr = PyExec(TRANSFORMER)
        e.funcs.setdefault('div_to_zero', tr.funcs['div_to_zero'])
        return e

    def cval(v):
        if isinstance(v, Template):
            return tables.ceval_template(v.parts)
        if isinstance(v, str):
            return z3.IntVal(tables.ceval(v))
        return as_int(v)

    sec = z3.Int('enc_seconds')
    admissible_time = z3.And(sec >= 0, sec <= 25 * 3600, sec % 60 == 0)
    for scope in ('basic', 'extended'):
        for suf in ('w', 's', 'u'):
            paths = ex().run('_to_code_and_modifier', {'seconds': sec, 'suffix': suf, 'scope': scope}, pre=[admissible_time])
            for k, p in enumerate(paths):
                tag = 'time[%s,%s]#%d' % (scope, suf, k)
                if p.outcome != 'return':
                    out.append((tag + '#no-exception', p.pc, z3.BoolVal(False)))
                    continue
                code, modifier = p.value
                code, mod = as_int(code), cval(modifier)
                out.append((tag + '#code-fits-uint8', p.pc, z3.And(code >= 0, code <= 255)))
                out.append((tag + '#modifier-fits-uint8', p.pc, z3.And(mod >= 0, mod <= 255)))
                out.append((tag + '#minutes-round-trip', p.pc, dec_time_minutes(code, mod) * 60 == sec))
                out.append((tag + '#suffix-round-trip', p.pc, dec_suffix(mod) == SUFFIX_VAL[suf]))
    # extended: offset to the minute within +-16h, delta -1:00..+2:45 in 15 minute steps
    off, delta = z3.Ints('enc_offset enc_delta')
    adm = [off >= -16 * 3600, off <= 16 * 3600, off % 60 == 0, delta >= -3600, delta <= 9900, delta % 900 == 0]
    paths = ex().run('_to_extended_offset_and_delta', {'offsetSeconds': off, 'deltaSeconds': delta}, pre=adm)
    for k, p in enumerate(paths):
        tag = 'extended-era-offset-delta#%d' % k
        oc, dc = p.value
        oc, dc = as_int(oc), cval(dc)
        out.append((tag + '#offsetCode-fits-int8', p.pc, z3.And(oc >= -128, oc <= 127)))
        # brace initialisation of an int8_t field: a value outside [-128,127] does not compile
        out.append((tag + '#deltaCode-fits-int8', p.pc, z3.And(dc >= -128, dc <= 127)))
        dcu = z3.If(dc < 0, dc + 256, dc)
        out.append((tag + '#offset-round-trip', p.pc + [dc >= -128, dc <= 127], dec_ext_offset_minutes(oc, dcu) * 60 == off))
        out.append((tag + '#delta-round-trip', p.pc + [dc >= -128, dc <= 127], dec_ext_delta_minutes(dcu) * 60 == delta))
    paths = ex().run('_to_extended_delta_code', {'seconds': delta}, pre=adm[3:])
    for k, p in enumerate(paths):
        dc = cval(p.value)
        out.append(('extended-rule-delta#%d#fits-int8' % k, p.pc, z3.And(dc >= -128, dc <= 127)))
        out.append(('extended-rule-delta#%d#round-trip' % k, p.pc, dec_ext_delta_minutes(u8(dc)) * 60 == delta))
    # basic scope: offsets / deltas are multiples of 15 minutes (truncated by the transformer), div_to_zero on both
    a = z3.Int('enc_a')
    paths = PyExec(TRANSFORMER).run('div_to_zero', {'a': a, 'b': 900}, pre=[a >= -16 * 3600, a <= 16 * 3600, a % 900 == 0])
    for k, p in enumerate(paths):
        v = as_int(p.value)
        out.append(('basic-offset-or-delta#%d#fits-int8' % k, p.pc, z3.And(v >= -128, v <= 127)))
        out.append(('basic-offset-or-delta#%d#round-trip' % k, p.pc, v * 15 * 60 == a))
    # div_to_zero truncates toward zero for every (a, positive b) used by the generators (b in {60, 900})
    for b in (60, 900):
        paths = PyExec(TRANSFORMER).run('div_to_zero', {'a': a, 'b': b}, pre=[a >= -10**6, a <= 10**6])
        for k, p in enumerate(paths):
            v = as_int(p.value)
            mag = z3.If(a < 0, -a, a)
            out.append(('div_to_zero[%d]#%d#truncates-toward-zero' % (b, k), p.pc, v == z3.If(a < 0, -(mag / b), mag / b)))
    # years
    year = z3.Int('enc_year')
    paths = ex().run('to_tiny_year', {'year': year}, pre=[z3.Or(z3.And(year >= 1873, year <= 2126), year == tr_consts['MAX_YEAR'], year == tr_consts['MIN_YEAR'])])
    for k, p in enumerate(paths):
        v = as_int(p.value)
        out.append(('year#%d#fits-int8' % k, p.pc, z3.And(v >= -128, v <= 127)))
        out.append(('year#%d#round-trip' % k, p.pc, z3.If(year == tr_consts['MAX_YEAR'], v == 126,
                                                         z3.If(year == tr_consts['MIN_YEAR'], v == tr_consts['MIN_YEAR_TINY'], v + 2000 == year))))
    return out
