"""Leaf and search contracts of the extended processor (C01 / C04 / C07) and the transition pool (C09)."""
import z3
from .reg import contract, lemma, bv32, sx, zx, byte, LemmaOb, instantiate, disjoint, valid_ptr
from vc.symex import LoopSpec, Ptr, BV
from . import spec
from . import calendar as cal

EZP = 'ace_time::ExtendedZoneProcessor'
TS = 'ace_time::extended::TransitionStorage<(unsigned char)8>'
TR = 'ace_time::extended::Transition'
DT = 'ace_time::extended::DateTuple'
SIZE = 8
INVALID_YT = z3.BitVecVal(-128, 8)


# ---- getMostRecentPriorYear --------------------------------------------------------------------------
def _prior_year_post(c):
    frm, to, start = c.args[0], c.args[1], c.args[2]
    r = c.result
    # semantic statement: the largest year y with from <= y <= to and y < start, if there is one
    exists = z3.And(frm < start, frm <= to)
    y = z3.BitVec('q_y', 8)
    return [('none-gives-sentinel', z3.Implies(z3.Not(frm < start), r == INVALID_YT)),
            ('is-in-the-rule-and-before-start', z3.Implies(z3.And(exists, start > -128), z3.And(frm <= r, r <= to, r < start))),
            ('is-the-most-recent', z3.Implies(z3.And(exists, start > -128),
                                              z3.ForAll([y], z3.Implies(z3.And(frm <= y, y <= to, y < start), y <= r))))]


contract(EZP + '::getMostRecentPriorYear(signed char, signed char, signed char, signed char)', pure=True,
         props=['C01', 'C04'], ensures=_prior_year_post)


# ---- calcInteriorYears -----------------------------------------------------------------------------------
def _interior_pre(c):
    buf, mx, frm, to, start, end = c.args
    c.ghost['buf_len'] = mx
    return [end < 127, mx >= 1, z3.ULE(mx, 127)]


def _interior_post(c):
    buf, mx, frm, to, start, end = c.args
    r = c.result
    lo = z3.If(frm > start, frm, start)     # first year of the intersection
    hi = z3.If(to < end, to, end)
    count = z3.If(hi >= lo, sx(hi) - sx(lo) + 1, bv32(0))
    k = z3.BitVec('q_k', 8)
    return [('at-most-max', z3.ULE(r, mx)),
            ('never-more-than-the-intersection', zx(r) <= z3.If(count > 0, count, bv32(0))),
            ('years-ascending-from-the-first-common-year', z3.ForAll([k], z3.Implies(z3.ULT(k, r),
                c.new.load(Ptr(None, c.ex.ptr_to_bv(buf) + zx(k, 64)), 1) == lo + k)))]


def _interior_inv(L):
    buf, mx, frm, to, start, end = L.c.args
    i, year = L.var('i'), L.var('year')
    lo = z3.If(frm > start, frm, start)
    k = z3.BitVec('q_k', 8)
    y1 = sx(year) - 1
    done = z3.If(year > lo, z3.If(y1 < sx(to), y1, sx(to)) - sx(lo) + 1, bv32(0))   # years of the intersection below `year`
    done = z3.If(done < 0, bv32(0), done)
    top = z3.If(sx(start) > sx(end) + 1, sx(start), sx(end) + 1)
    return [('bounds', z3.And(z3.ULT(i, mx), year >= start, sx(year) <= top)),
            ('count', zx(i) == done),
            ('stored', z3.ForAll([k], z3.Implies(z3.ULT(k, i), L.mem.load(Ptr(None, L.ex.ptr_to_bv(buf) + zx(k, 64)), 1) == lo + k)))]


contract(EZP + '::calcInteriorYears(signed char*, unsigned char, signed char, signed char, signed char, signed char)',
         props=['C01', 'C04'], lang_requires=lambda c: [valid_ptr(c.ex, c.args[0], 127)], requires=_interior_pre, ensures=_interior_post,
         assigns=lambda c: [(c.args[0], 127)],
         loops={0: LoopSpec(_interior_inv, variant=lambda L: sx(L.c.args[5]) + 2 - sx(L.var('year')), variant_signed=True)})


# ---- DateTuple helpers -------------------------------------------------------------------------------------
def dt_fields(view, p):
    f = lambda n: view.field(p, DT, n)
    return f('yearTiny'), f('month'), f('day'), f('minutes'), f('suffix')


def dt_minutes_since_epoch(yt, m, d, minutes):
    """minutes since 2000-01-01 00:00 of the (possibly un-normalised) tuple, 64-bit"""
    return sx(cal.dfc_fields(yt, m, d), 64) * 1440 + sx(minutes, 64)


NORM = EZP + '::normalizeDateTuple(ace_time::extended::DateTuple*)'
# ghost function, DEFINED as days(yt, m, d) := the proleptic Gregorian day count cal.dfc_fields(yt, m, d); callers of the
# date-tuple helpers reason about it opaquely, its definition is unfolded only where normalizeDateTuple itself is proved
DAYS = z3.Function('tuple_days', z3.BitVecSort(8), z3.BitVecSort(8), z3.BitVecSort(8), z3.BitVecSort(64))


def dt_minutes_abstract(yt, m, d, minutes):
    return DAYS(yt, m, d) * 1440 + sx(minutes, 64)



def _norm_pre(c):
    yt, m, d, mins, suf = dt_fields(c.old, c.args[0])
    # the tuples handed to this function are valid calendar dates well inside the year range, with a time of day
    # shifted by at most a day in either direction (AT 0..25h, offsets within +-16h, DST shift within 3h)
    return [cal.valid_fields(yt, m, d), yt > -126, yt < 126, mins > -1440, mins < 2880]


def _norm_post(c):
    o = dt_fields(c.old, c.args[0])
    n = dt_fields(c.new, c.args[0])
    return [('minutes-normalised', z3.And(n[3] >= 0, n[3] < 1440)),
            ('still-a-valid-date', cal.valid_fields(n[0], n[1], n[2])),
            ('same-instant', dt_minutes_since_epoch(*n[:4]) == dt_minutes_since_epoch(*o[:4])),
            ('same-instant-over-the-ghost-day-count', dt_minutes_abstract(*n[:4]) == dt_minutes_abstract(*o[:4])),
            ('suffix-kept', n[4] == o[4])]


def _norm_self_defs(c):
    o = dt_fields(c.old, c.args[0])
    n = dt_fields(c.new, c.args[0])
    return [('def-days-old', DAYS(o[0], o[1], o[2]) == sx(cal.dfc_fields(o[0], o[1], o[2]), 64)),
            ('def-days-new', DAYS(n[0], n[1], n[2]) == sx(cal.dfc_fields(n[0], n[1], n[2]), 64))]


_norm_contract = contract(NORM, props=['C07', 'C01', 'C04'], lang_requires=lambda c: [valid_ptr(c.ex, c.args[0], 6)], logic='int',
         requires=_norm_pre, ensures=_norm_post, assigns=lambda c: [(c.args[0], 6)],
         cases=lambda c: [('neg', dt_fields(c.old, c.args[0])[3] < 0), ('day', z3.And(dt_fields(c.old, c.args[0])[3] >= 0, dt_fields(c.old, c.args[0])[3] < 1440)),
                          ('over', dt_fields(c.old, c.args[0])[3] >= 1440)])
_norm_contract.self_defs = _norm_self_defs
_norm_contract.private = ('same-instant',)     # callers use the equivalent clause over the ghost day count


# ---- compareTransitionToMatchFuzzy ----------------------------------------------------------------------------
def _fuzzy_post(c):
    t, m = c.args
    tt = sx(c.old.field(t, TR, 'transitionTime.yearTiny')) * 12 + zx(c.old.field(t, TR, 'transitionTime.month'))
    ms = sx(c.old.field(m, 'ace_time::extended::ZoneMatch', 'startDateTime.yearTiny')) * 12 + zx(c.old.field(m, 'ace_time::extended::ZoneMatch', 'startDateTime.month'))
    mu = sx(c.old.field(m, 'ace_time::extended::ZoneMatch', 'untilDateTime.yearTiny')) * 12 + zx(c.old.field(m, 'ace_time::extended::ZoneMatch', 'untilDateTime.month'))
    r = c.result
    return [('more-than-a-month-before', z3.Implies(tt < ms - 1, r == z3.BitVecVal(-1, 8))),
            ('two-or-more-months-after', z3.Implies(z3.And(z3.Not(tt < ms - 1), mu + 2 <= tt), r == 2)),
            ('within-slack', z3.Implies(z3.And(z3.Not(tt < ms - 1), z3.Not(mu + 2 <= tt)), r == 1))]


contract(EZP + '::compareTransitionToMatchFuzzy(ace_time::extended::Transition const*, ace_time::extended::ZoneMatch const*)',
         pure=True, props=['C01', 'C04'], ensures=_fuzzy_post)


# ---- the transition pool ----------------------------------------------------------------------------------------
def pool(view, this):
    f = lambda n: view.field(this, TS, n)
    return dict(prior=f('mIndexPrior'), cand=f('mIndexCandidates'), free=f('mIndexFree'), hw=f('mHighWater'))


def slot(view, this, i):
    """mTransitions[i] for a symbolic 8-bit index"""
    off, _ = view.ex.mod.field(TS, 'mTransitions')
    return view.load(Ptr(None, view.ex.ptr_to_bv(this) + off + 8 * zx(i, 64)), 8)


def RI(p):
    """representation invariant of the index triple"""
    return z3.And(z3.ULE(p['prior'], p['cand']), z3.ULE(p['cand'], p['free']), z3.ULE(p['free'], SIZE))


def _frame_idx(c):
    return [c.field_addr(c.this, TS, n) for n in ('mIndexPrior', 'mIndexCandidates', 'mIndexFree', 'mHighWater')]


def _frame_all(c):
    return [c.field_addr(c.this, TS, 'mTransitions')] + _frame_idx(c)


def _ri_pre(extra=None):
    def pre(c):
        p = pool(c.old, c.this)
        out = [RI(p)]
        if extra:
            out += extra(p)
        return out
    return pre


def _ri_post(extra=None):
    def post(c):
        o, n = pool(c.old, c.this), pool(c.new, c.this)
        out = [('representation-invariant', RI(n))]
        if extra:
            out += extra(c, o, n)
        return out
    return post


contract(TS + '::getFreeAgent()', props=['C09'], requires=_ri_pre(), assigns=lambda c: [c.field_addr(c.this, TS, 'mHighWater')],
         ensures=_ri_post(lambda c, o, n: [('returns-a-pool-slot', c.ex.ptr_to_bv(c.result) == slot(c.old, c.this, z3.If(z3.ULT(o['free'], SIZE), o['free'], z3.BitVecVal(SIZE - 1, 8)))),
                                            ('high-water', z3.And(z3.UGE(n['hw'], o['hw']), z3.UGE(n['hw'], o['free']))),
                                            ('indices-untouched', z3.And(n['prior'] == o['prior'], n['cand'] == o['cand'], n['free'] == o['free']))]))
contract(TS + '::addFreeAgentToActivePool()', props=['C09'], requires=_ri_pre(), assigns=_frame_idx,
         ensures=_ri_post(lambda c, o, n: [('guarded-when-full', z3.Implies(z3.UGE(o['free'], SIZE), z3.And(n['free'] == o['free'], n['prior'] == o['prior'], n['cand'] == o['cand']))),
                                            ('appends-one', z3.Implies(z3.ULT(o['free'], SIZE), z3.And(n['free'] == o['free'] + 1, n['prior'] == n['free'], n['cand'] == n['free'])))]))
# reservePrior / setFreeAgentAsPrior have no guard in the code: their precondition is "the pool is not full"
contract(TS + '::reservePrior()', props=['C09'], requires=_ri_pre(lambda p: [z3.ULT(p['free'], SIZE)]), assigns=_frame_idx,
         ensures=_ri_post(lambda c, o, n: [('reserves-one-slot', z3.And(n['cand'] == o['cand'] + 1, n['free'] == o['free'] + 1, n['prior'] == o['prior'])),
                                            ('returns-the-prior-slot', c.ex.ptr_to_bv(c.result) == c.ex.ptr_to_bv(c.this) + c.mod.field(TS, 'mTransitions')[0] + 8 * zx(o['prior'], 64))]))
contract(TS + '::setFreeAgentAsPrior()', props=['C09'], requires=_ri_pre(lambda p: [z3.ULT(p['free'], SIZE)]), assigns=_frame_all,
         ensures=_ri_post(lambda c, o, n: [('swaps-two-slots', z3.And(slot(c.new, c.this, o['prior']) == slot(c.old, c.this, o['free']),
                                                                     slot(c.new, c.this, o['free']) == slot(c.old, c.this, o['prior']))),
                                            ('indices-untouched', z3.And(n['prior'] == o['prior'], n['cand'] == o['cand'], n['free'] == o['free']))]))
contract(TS + '::addPriorToCandidatePool()', props=['C09'], requires=_ri_pre(lambda p: [z3.UGT(p['cand'], p['prior'])]), assigns=_frame_idx,
         ensures=_ri_post(lambda c, o, n: [('one-more-candidate', z3.And(n['cand'] == o['cand'] - 1, n['free'] == o['free'], n['prior'] == o['prior']))]))
contract(TS + '::resetCandidatePool()', props=['C09'], requires=_ri_pre(), assigns=_frame_idx,
         ensures=_ri_post(lambda c, o, n: [('empties-candidates', z3.And(n['cand'] == o['prior'], n['free'] == o['prior'], n['prior'] == o['prior']))]))
def _same_idx(L):
    o, n = pool(L.c.old, L.c.this), pool(L.mem, L.c.this)
    return z3.And(n['prior'] == o['prior'], n['cand'] == o['cand'], n['free'] == o['free'])


def _afc_inv(L):
    o = pool(L.c.old, L.c.this)
    i = L.var('i')
    return [('indices-untouched', _same_idx(L)), ('not-full', z3.ULT(o['free'], SIZE)),
            ('i-in-candidate-window', z3.And(z3.ULE(o['cand'], i), z3.ULE(i, o['free'])))]


contract(TS + '::addFreeAgentToCandidatePool()', props=['C09'], requires=_ri_pre(), assigns=_frame_all,
         loops={0: LoopSpec(_afc_inv, variant=lambda L: L.var('i'))},
         ensures=_ri_post(lambda c, o, n: [('guarded-when-full', z3.Implies(z3.UGE(o['free'], SIZE), n['free'] == o['free'])),
                                            ('appends-one', z3.Implies(z3.ULT(o['free'], SIZE), z3.And(n['free'] == o['free'] + 1, n['prior'] == o['prior'], n['cand'] == o['cand'])))]))
def _aca_inv(L):
    o = pool(L.c.old, L.c.this)
    ia, ic = L.var('iActive'), L.var('iCandidate')
    return [('indices-untouched', _same_idx(L)),
            ('cursor-order', z3.And(z3.ULE(o['prior'], ia), z3.ULE(ia, ic), z3.ULE(ic, o['free']), z3.ULE(o['free'], SIZE)))]


contract(TS + '::addActiveCandidatesToActivePool()', props=['C09'], requires=_ri_pre(), assigns=_frame_all,
         loops={0: LoopSpec(_aca_inv, variant=lambda L: pool(L.c.old, L.c.this)['free'] - L.var('iCandidate'))},
         ensures=_ri_post(lambda c, o, n: [('compacts', z3.And(n['prior'] == n['free'], n['cand'] == n['free'], z3.UGE(n['free'], o['prior']), z3.ULE(n['free'], o['free'])))]))
contract(TS + '::init()', props=['C09'], assigns=_frame_all, unroll=SIZE + 1,
         ensures=lambda c: [('empty', z3.And(pool(c.new, c.this)['prior'] == 0, pool(c.new, c.this)['cand'] == 0, pool(c.new, c.this)['free'] == 0))] +
                           [('slot-%d-points-into-the-pool' % k, slot(c.new, c.this, z3.BitVecVal(k, 8)) == c.ex.ptr_to_bv(c.this) + 64 * k) for k in range(SIZE)])


# ---- searches over the active pool ---------------------------------------------------------------------------------
def _find_pre(c):
    p = pool(c.old, c.this)
    k = z3.BitVec('q_n', 8)
    # pool slots always point at pool entries (established by init(), kept by the swaps)
    return [RI(p), z3.ForAll([k], z3.Implies(z3.ULT(k, p['free']), slot(c.old, c.this, k) != 0))]


def _find_post(c):
    p = pool(c.old, c.this)
    t = c.args[1]
    r = c.ex.ptr_to_bv(c.result)
    k = z3.BitVec('q_k', 8)
    start = lambda i: c.old.load(Ptr(None, slot(c.old, c.this, i) + c.mod.field(TR, 'startEpochSeconds')[0]), 4)
    j = z3.BitVec('q_j', 8)
    # with the active transitions sorted by start, the result is the last one that starts at or before t
    sorted_ = z3.ForAll([k, j], z3.Implies(z3.And(z3.ULE(k, j), z3.ULT(j, p['free'])), start(k) <= start(j)))
    exists = z3.Exists([k], z3.And(z3.ULT(k, p['free']), r == slot(c.old, c.this, k), start(k) <= t,
                                   z3.Or(k + 1 == p['free'], start(k + 1) > t)))
    goal = exists
    # while the function itself is being proved, the existential is shown with its witness: the loop counter at the return, minus
    # one (the loop invariant speaks about exactly that slot); callers get the existential
    st = c.state
    if st is not None and st.frames and st.frames[-1].fn is c.fn and 'i' in st.frames[-1].allocas:
        from vc.symex import LoopCtx
        w = LoopCtx(c.ex, st, st.frames[-1], c).var('i') - 1
        goal = z3.And(z3.ULT(w, p['free']), r == slot(c.old, c.this, w), start(w) <= t, z3.Or(w + 1 == p['free'], start(w + 1) > t))
    return [('empty-pool-gives-null', z3.Implies(p['free'] == 0, r == 0)),
            # (with the active transitions sorted by start this is the LAST transition starting at or before t)
            ('a-transition-not-after-t-whose-successor-is-later', z3.Implies(r != 0, goal))]


def _find_inv(L):
    c = L.c
    p = pool(c.old, c.this)
    t = c.args[1]
    i = L.var('i')
    match = L.ex.ptr_to_bv(L.ptr('match'))
    k = z3.BitVec('q_k', 8)
    start = lambda j: c.old.load(Ptr(None, slot(c.old, c.this, j) + c.mod.field(TR, 'startEpochSeconds')[0]), 4)
    return [('bounds', z3.ULE(i, p['free'])),
            ('match-is-the-previous-slot', z3.If(i == 0, match == 0, match == slot(c.old, c.this, i - 1))),
            ('previous-starts-at-or-before-t', z3.Implies(i != 0, start(i - 1) <= t))]


contract(TS + '::findTransition(int) const', pure=True, props=['C01', 'C07', 'C09'], requires=_find_pre, ensures=_find_post,
         loops={0: LoopSpec(_find_inv, variant=lambda L: pool(L.c.old, L.c.this)['free'] - L.var('i'))})


def dt_key(view, p, base):
    """order-preserving 40-bit key of a DateTuple's (yearTiny, month, day, minutes): the field-by-field comparison of the code"""
    g = lambda n: view.load(Ptr(None, p + base + view.ex.mod.field(DT, n)[0]), view.ex.mod.field(DT, n)[1])
    return z3.Concat(g('yearTiny') ^ 0x80, g('month'), g('day'), g('minutes') ^ 0x8000)


def _find_dt_post(c):
    p = pool(c.old, c.this)
    ldt = c.args[1]
    f = cal.ldt_fields(c.old, ldt)
    wall = z3.Concat(f[0] ^ 0x80, f[1], f[2], (zx(f[3], 16) * 60 + zx(f[4], 16)) ^ 0x8000)
    r = c.ex.ptr_to_bv(c.result)
    k, j = z3.BitVec('q_k', 8), z3.BitVec('q_j', 8)
    sd = c.mod.field(TR, 'startDateTime')[0]
    key = lambda i: dt_key(c.old, slot(c.old, c.this, i), sd)
    # the result is the transition after which the first later-starting one follows: it starts at or before the wall time (field by
    # field order of operator<, which the lemma below shows to be chronological for normalised tuples) and the next active one,
    # if any, starts after it.  With the active transitions sorted by start this is the LAST one starting at or before the wall
    # time -- in an overlap the later of the two candidates, the one the property asks for.
    exists = z3.Exists([k], z3.And(z3.ULT(k, p['free']), r == slot(c.old, c.this, k), z3.ULE(key(k), wall),
                                   z3.Or(k + 1 == p['free'], z3.UGT(key(k + 1), wall))))
    goal = exists
    st = c.state
    if st is not None and st.frames and st.frames[-1].fn is c.fn and 'i' in st.frames[-1].allocas:
        # own exit: the existential is shown with its witness, the loop counter minus one (see findTransition)
        from vc.symex import LoopCtx
        w = LoopCtx(c.ex, st, st.frames[-1], c).var('i') - 1
        goal = z3.And(z3.ULT(w, p['free']), r == slot(c.old, c.this, w), z3.ULE(key(w), wall),
                      z3.Or(w + 1 == p['free'], z3.UGT(key(w + 1), wall)))
    return [('null-or-an-active-transition', z3.Or(r == 0, z3.Exists([k], z3.And(z3.ULT(k, p['free']), r == slot(c.old, c.this, k))))),
            ('null-only-when-the-first-transition-starts-later', z3.Implies(r == 0, z3.Or(p['free'] == 0, z3.UGT(key(z3.BitVecVal(0, 8)), wall)))),
            ('a-transition-not-after-the-wall-time-whose-successor-is-later', z3.Implies(r != 0, goal))]


def _find_dt_inv(L):
    c = L.c
    p = pool(c.old, c.this)
    f = cal.ldt_fields(c.old, c.args[1])
    wall = z3.Concat(f[0] ^ 0x80, f[1], f[2], (zx(f[3], 16) * 60 + zx(f[4], 16)) ^ 0x8000)
    i = L.var('i')
    match = L.ex.ptr_to_bv(L.ptr('match'))
    k = z3.BitVec('q_k', 8)
    sd = c.mod.field(TR, 'startDateTime')[0]
    key = lambda j: dt_key(c.old, slot(c.old, c.this, j), sd)
    ld = L.frame.allocas['localDate']
    loc = [L.ex._load_at(L.st.bytes[ld.id], ld, o, n, False, L.st) for o, n in ((0, 1), (1, 1), (2, 1), (4, 2))]
    return [('bounds', z3.ULE(i, p['free'])),
            ('match-is-the-previous-slot', z3.If(i == 0, match == 0, match == slot(c.old, c.this, i - 1))),
            ('local-tuple-is-the-wall-time', z3.Concat(loc[0] ^ 0x80, loc[1], loc[2], loc[3] ^ 0x8000) == wall),
            ('match-is-null-only-before-the-first-slot', (i == 0) == (match == 0)),
            ('previous-starts-at-or-before-the-wall-time', z3.Implies(i != 0, z3.ULE(key(i - 1), wall)))]


contract(TS + '::findTransitionForDateTime(ace_time::LocalDateTime const&) const', pure=True, props=['C07', 'C09'],
         requires=lambda c: _find_pre(c) + [z3.ULT(cal.ldt_fields(c.old, c.args[1])[3], 25), z3.ULT(cal.ldt_fields(c.old, c.args[1])[4], 60)],
         ensures=_find_dt_post,
         loops={0: LoopSpec(_find_dt_inv, variant=lambda L: pool(L.c.old, L.c.this)['free'] - L.var('i'))})


@lemma('C07')
def lexicographic_order_is_chronological(ex):
    """for normalised tuples (0 <= minutes < 1440, valid dates) the field-by-field order used by
    findTransitionForDateTime is the chronological order -- this is why normalizeDateTuple must fold negative minutes"""
    a = [z3.BitVec('lx_a%d' % k, 8) for k in range(3)] + [z3.BitVec('lx_am', 16)]
    b = [z3.BitVec('lx_b%d' % k, 8) for k in range(3)] + [z3.BitVec('lx_bm', 16)]
    ka = z3.Concat(a[0] ^ 0x80, a[1], a[2], a[3] ^ 0x8000)
    kb = z3.Concat(b[0] ^ 0x80, b[1], b[2], b[3] ^ 0x8000)
    norm = lambda t: z3.And(cal.valid_fields(t[0], t[1], t[2]), t[3] >= 0, t[3] < 1440)
    return [LemmaOb('field-by-field order of normalised DateTuples is chronological', [norm(a), norm(b)],
                    z3.ULT(ka, kb) == (dt_minutes_since_epoch(*a) < dt_minutes_since_epoch(*b)),
                    cases=[('m%d' % k, a[1] == k) for k in range(1, 13)])]
