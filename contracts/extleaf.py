"""Further leaf contracts of the extended processor (C01 / C07): date-tuple order, era / interval comparison, the three
readings (wall / standard / universal) of a transition time, the position of a transition relative to a match, and the
selection of the latest prior transition."""
import z3
from .reg import contract, sx, zx, bv32, valid_ptr
from vc.symex import Ptr
from . import calendar as cal
from .extended import EZP, TR, DT, dt_fields, dt_minutes_since_epoch, dt_minutes_abstract

ERA = 'ace_time::extended::ZoneEra'
MATCH = 'ace_time::extended::ZoneMatch'
K_W, K_S, K_U = 0x00, 0x10, 0x20          # extended::ZoneContext::kSuffixW / S / U (table encoding, C12)


def key_of(f):
    """order-preserving key of (yearTiny, month, day, minutes): the field-by-field comparison of operator<"""
    return z3.Concat(f[0] ^ 0x80, f[1], f[2], f[3] ^ 0x8000)


def as_ptr(view, p):
    """a Ptr for either a Ptr (kept: a local object is read from its own bytes) or an address bit-vector"""
    return p if isinstance(p, Ptr) else Ptr(None, p)


def rd(view, p, cls, name):
    return view.field(as_ptr(view, p), cls, name)


def tuple_at(view, p, cls=None, member=None):
    pre = '' if member is None else member + '.'
    c = DT if member is None else cls
    g = lambda n: view.field(as_ptr(view, p), c, pre + n)
    return g('yearTiny'), g('month'), g('day'), g('minutes'), g('suffix')


# ---- operator< / operator== on DateTuple ---------------------------------------------------------------------
def _lt_post(c):
    a, b = tuple_at(c.old, c.args[0]), tuple_at(c.old, c.args[1])
    return [('field-by-field-order-ignoring-the-suffix', (c.result == 1) == z3.ULT(key_of(a), key_of(b)))]


def _eq_post(c):
    a, b = tuple_at(c.old, c.args[0]), tuple_at(c.old, c.args[1])
    return [('all-five-fields', (c.result == 1) == z3.And(*[x == y for x, y in zip(a, b)]))]


contract('ace_time::extended::operator<(ace_time::extended::DateTuple const&, ace_time::extended::DateTuple const&)', pure=True,
         props=['C01', 'C07'], ensures=_lt_post)
contract('ace_time::extended::operator==(ace_time::extended::DateTuple const&, ace_time::extended::DateTuple const&)', pure=True,
         props=['C01', 'C07'], ensures=_eq_post)


# ---- compareEraToYearMonth / eraOverlapsInterval ----------------------------------------------------------------
def era_until(view, era_bv):
    f = lambda n: rd(view, era_bv, ERA, n)
    code, mod_ = f('untilTimeCode'), f('untilTimeModifier')
    minutes = zx(code, 16) * 15 + zx(mod_ & 0x0f, 16)            # decoded as verified under C12 (timeCodeToMinutes)
    return f('untilYearTiny'), f('untilMonth'), f('untilDay'), minutes


def _cmp_era(view, era_bv, y, m):
    """sign of UNTIL(era) - (y, m, 1, 00:00), field by field"""
    uy, um, ud, ut = era_until(view, era_bv)
    ku = z3.Concat(uy ^ 0x80, um, ud, ut)
    kq = z3.Concat(y ^ 0x80, m, z3.BitVecVal(1, 8), z3.BitVecVal(0, 16))
    return ku, kq


def _cetym_post(c):
    era, y, m = c.args
    ku, kq = _cmp_era(c.old, era, y, m)
    r = c.result
    return [('negative-iff-the-era-ends-before-the-month-starts', (r < 0) == z3.ULT(ku, kq)),
            ('positive-iff-the-era-ends-after-the-month-starts', (r > 0) == z3.UGT(ku, kq)),
            ('zero-iff-the-era-ends-when-the-month-starts', (r == 0) == (ku == kq))]


contract(EZP + '::compareEraToYearMonth(ace_time::extended::ZoneEraBroker, signed char, unsigned char)', pure=True, props=['C01'],
         lang_requires=lambda c: [valid_ptr(c.ex, c.args[0], 24)],
         requires=lambda c: [era_until(c.old, c.args[0])[2] >= 1], ensures=_cetym_post)


def _ym(view, p):
    YM = 'ace_time::extended::YearMonthTuple'
    return view.field(p, YM, 'yearTiny'), view.field(p, YM, 'month')


def _overlap_post(c):
    prev, era, s, u = c.args
    sy, sm = _ym(c.old, s)
    uy, um = _ym(c.old, u)
    kp, ku = _cmp_era(c.old, prev, uy, um)
    ke, ks = _cmp_era(c.old, era, sy, sm)
    return [('era-starts-before-the-interval-ends-and-ends-after-it-starts', (c.result == 1) == z3.And(z3.ULT(kp, ku), z3.UGT(ke, ks)))]


contract(EZP + '::eraOverlapsInterval(ace_time::extended::ZoneEraBroker, ace_time::extended::ZoneEraBroker, ace_time::extended::YearMonthTuple const&, ace_time::extended::YearMonthTuple const&)',
         pure=True, props=['C01'],
         lang_requires=lambda c: [valid_ptr(c.ex, c.args[0], 24), valid_ptr(c.ex, c.args[1], 24)],
         requires=lambda c: [era_until(c.old, c.args[0])[2] >= 1, era_until(c.old, c.args[1])[2] >= 1],
         ensures=_overlap_post)


# ---- expandDateTuple: wall / standard / universal readings of one instant ----------------------------------------
EXPAND = EZP + '::expandDateTuple(ace_time::extended::DateTuple*, ace_time::extended::DateTuple*, ace_time::extended::DateTuple*, short, short)'


def _expand_pre(c):
    tt, tts, ttu, off, delta = c.args
    yt, m, d, mins, suf = dt_fields(c.old, tt)
    # AT / UNTIL times of day 0..25 h, standard offsets within +-16 h, DST shift within +-3 h
    return [cal.valid_fields(yt, m, d), yt > -126, yt < 126, mins >= 0, mins <= 1500, off >= -960, off <= 960, delta >= -180, delta <= 180]


def _expand_post(c):
    tt, tts, ttu, off, delta = c.args
    o = dt_fields(c.old, tt)
    w, s, u = dt_fields(c.new, tt), dt_fields(c.new, tts), dt_fields(c.new, ttu)
    M = lambda t: dt_minutes_abstract(*t[:4])       # over the ghost day count (see contracts/extended.py)
    off64, d64 = sx(off, 64), sx(delta, 64)
    orig = M(o)
    # the instant designated by the original tuple, read in the frame its suffix names
    wall = z3.If(o[4] == K_S, orig + d64, z3.If(o[4] == K_U, orig + off64 + d64, orig))
    out = [('suffixes-are-w-s-u', z3.And(w[4] == K_W, s[4] == K_S, u[4] == K_U)),
           ('wall-reading', M(w) == wall),
           ('standard-reading-is-wall-minus-the-dst-shift', M(s) == wall - d64),
           ('universal-reading-is-standard-minus-the-offset', M(u) == wall - d64 - off64)]
    for n, t in (('w', w), ('s', s), ('u', u)):
        out.append(('%s-normalised' % n, z3.And(t[3] >= 0, t[3] < 1440, cal.valid_fields(t[0], t[1], t[2]))))
    return out


def _expand_layout(mod):
    w = mod.field(TR, 'transitionTime')[0]
    return mod.field(TR, 'transitionTimeS')[0] - w, mod.field(TR, 'transitionTimeU')[0] - w


def _expand_inputs(ex, args):
    ds, du = _expand_layout(ex.mod)
    tt = ex.ptr_to_bv(args[0])
    return [args[0], Ptr(None, tt + ds), Ptr(None, tt + du), args[3], args[4]]


def _expand_members(c):
    # derived from the only call site (fixTransitionTimes): the three tuples are the members transitionTime, transitionTimeS and
    # transitionTimeU of one Transition
    ds, du = _expand_layout(c.mod)
    tt = c.ex.ptr_to_bv(c.args[0])
    return [c.ex.ptr_to_bv(c.args[1]) == tt + ds, c.ex.ptr_to_bv(c.args[2]) == tt + du]


contract(EXPAND, props=['C01', 'C07'], inputs=_expand_inputs,
         lang_requires=lambda c: [valid_ptr(c.ex, c.args[0], 64)],
         requires=lambda c: _expand_members(c) + _expand_pre(c), ensures=_expand_post, assigns=lambda c: [(c.args[0], 6), (c.args[1], 6), (c.args[2], 6)],
         cases=lambda c: [('s', dt_fields(c.old, c.args[0])[4] == K_S), ('u', dt_fields(c.old, c.args[0])[4] == K_U),
                          ('w', z3.And(dt_fields(c.old, c.args[0])[4] != K_S, dt_fields(c.old, c.args[0])[4] != K_U))])


# ---- compareTransitionToMatch --------------------------------------------------------------------------------------
CMP = EZP + '::compareTransitionToMatch(ace_time::extended::Transition const*, ace_time::extended::ZoneMatch const*)'


def reading(view, t_bv, suffix):
    """the reading of the transition time in the frame named by `suffix` (anything but s / u means wall)"""
    w = tuple_at(view, t_bv, TR, 'transitionTime')
    s = tuple_at(view, t_bv, TR, 'transitionTimeS')
    u = tuple_at(view, t_bv, TR, 'transitionTimeU')
    return [z3.If(suffix == K_S, s[k], z3.If(suffix == K_U, u[k], w[k])) for k in range(5)]


def position(view, t_bv, m_bv):
    """-1 before the match, 0 exactly at its start, 1 inside, 2 at or after its end; each bound compared in its own frame"""
    start = tuple_at(view, m_bv, MATCH, 'startDateTime')
    until = tuple_at(view, m_bv, MATCH, 'untilDateTime')
    ts = reading(view, t_bv, start[4])
    tu = reading(view, t_bv, until[4])
    before = z3.ULT(key_of(ts), key_of(start))
    at_start = z3.And(*[x == y for x, y in zip(ts, start)])
    inside = z3.ULT(key_of(tu), key_of(until))
    return z3.If(before, z3.BitVecVal(-1, 8), z3.If(at_start, z3.BitVecVal(0, 8), z3.If(inside, z3.BitVecVal(1, 8), z3.BitVecVal(2, 8))))


contract(CMP, pure=True, props=['C01', 'C07'],
         lang_requires=lambda c: [valid_ptr(c.ex, c.args[0], 64), valid_ptr(c.ex, c.args[1], 24)],
         ensures=lambda c: [('position-relative-to-the-match', c.result == position(c.old, c.args[0], c.args[1]))])


# ---- processActiveTransition: active flags and the latest prior ---------------------------------------------------
PAT = EZP + '::processActiveTransition(ace_time::extended::ZoneMatch const*, ace_time::extended::Transition*, ace_time::extended::Transition**)'


def _active(view, t_bv):
    return rd(view, t_bv, TR, 'active')


def _pat_pre(c):
    m, t, pp = c.args
    tb, pb = c.ex.ptr_to_bv(t), c.ex.ptr_to_bv(pp)
    prior = c.old.load(pp, 8)
    size = c.mod.size_of(c.mod.types['struct.' + TR])
    msize = c.mod.size_of(c.mod.types['struct.' + MATCH])
    sep = lambda a, na, b, nb: z3.Or(z3.UGE(a, b + nb), z3.UGE(b, a + na))
    top = z3.BitVecVal((1 << 64) - 1 - 4096, 64)
    mb = c.ex.ptr_to_bv(m)
    # the candidate is not the current prior (each candidate is offered once); the objects are distinct and do not wrap
    return [prior != tb, z3.ULE(tb, top), z3.ULE(pb, top), z3.ULE(mb, top),
            z3.Implies(prior != 0, z3.And(sep(prior, size, tb, size), sep(prior, size, pb, 8), sep(prior, size, mb, msize), z3.ULE(prior, top))),
            sep(tb, size, pb, 8), sep(mb, msize, tb, size), sep(mb, msize, pb, 8)]


def _pat_post(c):
    m, t, pp = c.args
    tb, pb, mb = c.ex.ptr_to_bv(t), c.ex.ptr_to_bv(pp), c.ex.ptr_to_bv(m)
    prior0 = c.old.load(pp, 8)
    prior1 = c.new.load(pp, 8)
    pos = position(c.old, t, m)
    tkey = key_of(tuple_at(c.old, t, TR, 'transitionTime'))
    pkey = key_of(tuple_at(c.old, prior0, TR, 'transitionTime'))
    takes_over = z3.And(pos <= 0, z3.Or(prior0 == 0, pos == 0, z3.ULT(pkey, tkey)))
    act = lambda view, p: _active(view, p) != 0
    tb = t          # read the candidate through its own pointer object
    return [('after-the-match-is-inactive', z3.Implies(pos == 2, z3.And(z3.Not(act(c.new, tb)), prior1 == prior0))),
            ('inside-the-match-is-active', z3.Implies(pos == 1, z3.And(act(c.new, tb), prior1 == prior0))),
            ('at-or-before-the-start-becomes-the-prior-when-it-is-the-latest', z3.Implies(takes_over, z3.And(prior1 == c.ex.ptr_to_bv(t), act(c.new, tb)))),
            ('the-replaced-prior-is-deactivated', z3.Implies(z3.And(takes_over, prior0 != 0), z3.Not(act(c.new, prior0)))),
            ('an-earlier-one-changes-nothing', z3.Implies(z3.And(pos < 0, z3.Not(takes_over)), z3.And(prior1 == prior0, _active(c.new, tb) == _active(c.old, tb),
                                                                                                 _active(c.new, prior0) == _active(c.old, prior0)))),
            ('an-untouched-prior-keeps-its-flag', z3.Implies(z3.And(z3.Not(takes_over), prior0 != 0), _active(c.new, prior0) == _active(c.old, prior0)))]


def _pat_assigns(c):
    m, t, pp = c.args
    off, n = c.mod.field(TR, 'active')
    tb = c.ex.ptr_to_bv(t)
    prior0 = c.old.load(pp, 8)
    return [(c.ex.ptr_add(t, off), n), (pp, 8), (Ptr(None, prior0 + off), n)]


contract(PAT, props=['C01', 'C07'],
         lang_requires=lambda c: [valid_ptr(c.ex, c.args[0], 24), valid_ptr(c.ex, c.args[1], 64), valid_ptr(c.ex, c.args[2], 8)],
         requires=_pat_pre, ensures=_pat_post, assigns=_pat_assigns)


# ---- getTransitionTime: the date-tuple of a rule in a given year -------------------------------------------------
from . import ruleday as _rd
from . import encoding as _enc
XRULE = 'ace_time::extended::ZoneRule'


def _xrule(view, r_bv):
    f = lambda n: rd(view, r_bv, XRULE, n)
    return dict(month=f('inMonth'), dow=f('onDayOfWeek'), dom=f('onDayOfMonth'), code=f('atTimeCode'), mod=f('atTimeModifier'))


# ghost predicate, DEFINED as admitted(year, month, dow, dom) := the ON field is a weekday form that the compiler admits (C18):
# inside its domain and resolving inside the year.  Callers carry it opaquely; it is unfolded where getTransitionTime is proved.
ADMITTED = z3.Function('on_field_admitted', z3.BitVecSort(32), z3.BitVecSort(32), z3.BitVecSort(32), z3.BitVecSort(32), z3.BoolSort())


def _gtt_terms(c):
    yt, rule = c.args
    r = _xrule(c.old, rule)
    year = sx(sx(yt, 16) + 2000)
    return yt, r, year, zx(r['month']), zx(r['dow']), sx(r['dom'])


def _gtt_pre(c):
    yt, r, year, m, dow, dom = _gtt_terms(c)
    # the table satisfies the admission filter of the compiler (C18): a weekday form that resolves inside the year
    return [ADMITTED(year, m, dow, dom)]


def _gtt_entry_defs(c):
    yt, r, year, m, dow, dom = _gtt_terms(c)
    return [('def-admitted', ADMITTED(year, m, dow, dom) == z3.And(_rd.domain(year, m, dow, dom), _rd.no_year_spill(m, dom)))]


def _gtt_post(c):
    yt, r, year, m, dow, dom = _gtt_terms(c)
    res = c.result                    # i48, little endian: yearTiny, month, day, suffix, minutes (16) -- the member order of DateTuple
    f_y, f_m, f_d = z3.Extract(7, 0, res), z3.Extract(15, 8, res), z3.Extract(23, 16, res)
    f_suf, f_min = z3.Extract(31, 24, res), z3.Extract(47, 32, res)
    return [('year-kept', f_y == yt),
            ('day-is-the-calendar-answer-of-the-ON-field', _rd.calendar_answer(year, m, dow, dom, zx(f_m), zx(f_d))),
            ('time-of-day-decoded', zx(f_min, 32) == _enc.dec_time_minutes(zx(r['code']), zx(r['mod']))),
            ('suffix-decoded', zx(f_suf, 32) == _enc.dec_suffix(zx(r['mod'])))]


_gtt = contract(EZP + '::getTransitionTime(signed char, ace_time::extended::ZoneRuleBroker)', pure=True, props=['C01'],
                lang_requires=lambda c: [valid_ptr(c.ex, c.args[1], 9)], requires=_gtt_pre, ensures=_gtt_post)
_gtt.entry_defs = _gtt_entry_defs
_gtt.private = ('day-is-the-calendar-answer-of-the-ON-field',)      # callers refer to the returned value, not to the calendar formula


# ---- createMatch: the era clipped to the viewing interval ---------------------------------------------------------
def _era_until_tuple(view, era_bv):
    """UNTIL of an era as a date-tuple (yearTiny, month, day, minutes, suffix), decoded as verified under C12"""
    f = lambda n: rd(view, era_bv, ERA, n)
    code, mod_ = f('untilTimeCode'), f('untilTimeModifier')
    return f('untilYearTiny'), f('untilMonth'), f('untilDay'), zx(code, 16) * 15 + zx(mod_ & 0x0f, 16), mod_ & 0xf0


def _cm_post(c):
    res, prev, era, s, u = c.args
    rb = c.ex.ptr_to_bv(res)
    sy, sm = _ym(c.old, s)
    uy, um = _ym(c.old, u)
    pu = _era_until_tuple(c.old, prev)
    eu = _era_until_tuple(c.old, era)
    lower = (sy, sm, z3.BitVecVal(1, 8), z3.BitVecVal(0, 16), z3.BitVecVal(K_W, 8))
    upper = (uy, um, z3.BitVecVal(1, 8), z3.BitVecVal(0, 16), z3.BitVecVal(K_W, 8))
    start = tuple_at(c.new, res, MATCH, 'startDateTime')
    until = tuple_at(c.new, res, MATCH, 'untilDateTime')
    era_off, era_n = c.mod.field(MATCH, 'era')
    pick = lambda cond, a, b: [z3.If(cond, x, y) for x, y in zip(a, b)]
    want_start = pick(z3.ULT(key_of(pu), key_of(lower)), lower, pu)          # the later of (end of the previous era, interval start)
    want_until = pick(z3.ULT(key_of(upper), key_of(eu)), upper, eu)          # the earlier of (end of this era, interval end)
    return [('starts-at-the-later-of-previous-until-and-interval-start', z3.And(*[a == b for a, b in zip(start, want_start)])),
            ('ends-at-the-earlier-of-era-until-and-interval-end', z3.And(*[a == b for a, b in zip(until, want_until)])),
            ('refers-to-the-era', c.new.field(res, MATCH, 'era') == c.ex.ptr_to_bv(era))]


contract(EZP + '::createMatch(ace_time::extended::ZoneEraBroker, ace_time::extended::ZoneEraBroker, ace_time::extended::YearMonthTuple const&, ace_time::extended::YearMonthTuple const&)',
         props=['C01'], lang_requires=lambda c: [valid_ptr(c.ex, c.args[1], 24), valid_ptr(c.ex, c.args[2], 24)], ensures=_cm_post,
         assigns=lambda c: [(c.args[0], c.mod.size_of(c.mod.types['struct.' + MATCH]))])


# ---- createTransitionForYear ----------------------------------------------------------------------------------------
CTFY = EZP + '::createTransitionForYear(ace_time::extended::Transition*, signed char, ace_time::extended::ZoneRuleBroker, ace_time::extended::ZoneMatch const*)'


def _ctfy_pre(c):
    t, yt, rule, m = c.args
    tb, rb = c.ex.ptr_to_bv(t), c.ex.ptr_to_bv(rule)
    r = _xrule(c.old, rule)
    year = sx(sx(yt, 16) + 2000)
    era = c.old.field(m, MATCH, 'era')
    size = c.mod.size_of(c.mod.types['struct.' + TR])
    top = z3.BitVecVal((1 << 64) - 1 - 4096, 64)
    sep = lambda a, na, b, nb: z3.Or(z3.UGE(a, b + nb), z3.UGE(b, a + na))
    # the transition is a RAM object, the era and the rule are table entries: none of them overlap
    mb = c.ex.ptr_to_bv(m)
    return [era != 0, z3.ULE(era, top), z3.ULE(tb, top), z3.ULE(mb, top), sep(tb, size, era, 24), sep(mb, 24, era, 24), sep(tb, size, mb, 24),
            z3.Implies(rb != 0, z3.And(ADMITTED(year, zx(r['month']), zx(r['dow']), sx(r['dom'])), z3.ULE(rb, top), sep(tb, size, rb, 9)))]


def _is_gtt_result(c, tt, yt, rb):
    """the stored transition time is the value returned by getTransitionTime(year, rule) on this path (whose contract states
    what that value is: the calendar answer of the ON field, the decoded time of day and suffix)"""
    calls = [e for e in c.log if e[0] == 'call' and 'getTransitionTime' in e[1]]
    if not calls:
        return z3.BoolVal(False)
    _, _, args, rv = calls[-1]
    f_y, f_m, f_d = z3.Extract(7, 0, rv), z3.Extract(15, 8, rv), z3.Extract(23, 16, rv)
    f_suf, f_min = z3.Extract(31, 24, rv), z3.Extract(47, 32, rv)
    return z3.And(args[0] == yt, c.ex.ptr_to_bv(args[1]) == rb, tt[0] == f_y, tt[1] == f_m, tt[2] == f_d, tt[3] == f_min, tt[4] == f_suf)


def _ctfy_post(c):
    t, yt, rule, m = c.args
    tb, rb, mb = c.ex.ptr_to_bv(t), c.ex.ptr_to_bv(rule), c.ex.ptr_to_bv(m)
    g = lambda n: c.new.field(t, TR, n)
    era = c.old.field(m, MATCH, 'era')
    ef = lambda n: rd(c.old, era, ERA, n)
    r = _xrule(c.old, rule)
    rf = lambda n: rd(c.old, rule, XRULE, n)
    year = sx(sx(yt, 16) + 2000)
    tt = tuple_at(c.new, t, TR, 'transitionTime')
    ms = tuple_at(c.old, m, MATCH, 'startDateTime')
    letter = rf('letter')
    lb = lambda k: c.new.load(c.ex.ptr_add(t, c.mod.field(TR, 'letterBuf')[0] + k), 1)
    return [('match-and-rule-recorded', z3.And(g('match') == mb, g('rule') == rb)),
            ('offset-of-the-era', sx(g('offsetMinutes')) == _enc.dec_ext_offset_minutes(sx(ef('offsetCode')), zx(ef('deltaCode')))),
            ('rule-gives-time-and-dst-shift', z3.Implies(rb != 0, z3.And(_is_gtt_result(c, tt, yt, rb),
                                                                          sx(g('deltaMinutes')) == _enc.dec_ext_delta_minutes(zx(rf('deltaCode')))))),
            ('without-a-rule-the-transition-time-is-the-match-start', z3.Implies(rb == 0, z3.And(*[a == b for a, b in zip(tt, ms)]))),
            ('without-a-rule-the-dst-shift-of-the-era', z3.Implies(rb == 0, sx(g('deltaMinutes')) == _enc.dec_ext_delta_minutes(zx(ef('deltaCode'))))),
            ('single-character-letter-copied', z3.Implies(z3.And(rb != 0, letter >= 32, letter != ord('-')), z3.And(lb(0) == letter, lb(1) == 0))),
            ('no-letter-otherwise', z3.Implies(z3.Or(rb == 0, letter < 32, letter == ord('-')), lb(0) == 0))]


def _ctfy_assigns(c):
    out = []
    for n in ('match', 'rule', 'offsetMinutes', 'deltaMinutes', 'transitionTime', 'letterBuf'):
        off, size = c.mod.field(TR, n)
        out.append((c.ex.ptr_add(c.args[0], off), size))
    return out


contract(CTFY, props=['C01'],
         lang_requires=lambda c: [valid_ptr(c.ex, c.args[0], 64), valid_ptr(c.ex, c.args[3], 24),
                                  z3.Or(z3.UGE(c.ex.ptr_to_bv(c.args[0]), c.ex.ptr_to_bv(c.args[3]) + 24), z3.UGE(c.ex.ptr_to_bv(c.args[3]), c.ex.ptr_to_bv(c.args[0]) + 64))],
         requires=_ctfy_pre, ensures=_ctfy_post, assigns=_ctfy_assigns)
REG_CTFY = None
from .reg import REG as _REG
_REG[CTFY].separated = lambda c: [(c.ex.ptr_to_bv(c.args[0]), 64), (c.ex.ptr_to_bv(c.args[3]), 24), (c.old.field(c.args[3], MATCH, 'era'), 24)]

