"""C17 -- TimePeriod, TimeOffset and the mutation helpers."""
import z3
from .reg import contract, lemma, bv32, sx, zx, byte, disjoint, INT32_MIN, LemmaOb, instantiate, obj_at

TP = 'ace_time::TimePeriod'
TO = 'ace_time::TimeOffset'
ZDT = 'ace_time::ZonedDateTime'


def tp_fields(view, p):
    return tuple(view.field(p, TP, n) for n in ('mHour', 'mMinute', 'mSecond', 'mSign'))


def tp_len(h, m, s):
    return zx(h) * 3600 + zx(m) * 60 + zx(s)


def tp_signed_len(h, m, s, sg):
    t = tp_len(h, m, s)
    return z3.If(sg >= 0, t, -t)


MAXP = 921599


def _tp_ctor_post(c):
    s = c.args[1]
    h, m, se, sg = tp_fields(c.new, c.this)
    inr = z3.And(s >= -MAXP, s <= MAXP)
    return [('sign', z3.Implies(inr, sg == z3.If(s < 0, z3.BitVecVal(-1, 8), z3.BitVecVal(1, 8)))),
            ('minute<60', z3.Implies(inr, z3.ULT(m, 60))), ('second<60', z3.Implies(inr, z3.ULT(se, 60))),
            ('magnitude', z3.Implies(inr, tp_len(h, m, se) == z3.If(s < 0, -s, s)))]


contract('ace_time::TimePeriod::TimePeriod(int)', props=['C17'], ensures=_tp_ctor_post,
         assigns=lambda c: [(c.this, 4)])

contract('ace_time::TimePeriod::toSeconds() const', pure=True, props=['C17'],
         ensures=lambda c: [('signed-length', c.result == tp_signed_len(*tp_fields(c.old, c.this)))])


def _tp_cmp_post(c):
    a = tp_signed_len(*tp_fields(c.old, c.this))
    b = tp_signed_len(*tp_fields(c.old, c.args[1]))
    r = c.result
    return [('lt', z3.Implies(a < b, r == z3.BitVecVal(-1, 8))), ('eq', z3.Implies(a == b, r == 0)),
            ('gt', z3.Implies(a > b, r == 1))]


contract('ace_time::TimePeriod::compareTo(ace_time::TimePeriod const&) const', pure=True, props=['C17'],
         ensures=_tp_cmp_post)

NEG = 'ace_time::time_period_mutation::negate(ace_time::TimePeriod&)'


def _neg_post(c):
    o = tp_fields(c.old, c.args[0])
    n = tp_fields(c.new, c.args[0])
    return [('sign-negated', n[3] == -o[3]),
            ('magnitude-untouched', z3.And(n[0] == o[0], n[1] == o[1], n[2] == o[2]))]


contract(NEG, props=['C17'], ensures=_neg_post,
         assigns=lambda c: [c.field_addr(c.args[0], TP, 'mSign')])


def _inc_hour_limit_post(c):
    o = tp_fields(c.old, c.args[0])
    n = tp_fields(c.new, c.args[0])
    lim = c.args[1]
    nxt = o[0] + 1
    return [('next-mod-limit', n[0] == z3.If(z3.UGE(nxt, lim), z3.BitVecVal(0, 8), nxt)),
            ('below-limit', z3.Implies(z3.UGT(lim, 0), z3.ULT(n[0], lim))),
            ('others-untouched', z3.And(n[1] == o[1], n[2] == o[2], n[3] == o[3]))]


contract('ace_time::time_period_mutation::incrementHour(ace_time::TimePeriod&, unsigned char)', props=['C17'],
         ensures=_inc_hour_limit_post, assigns=lambda c: [c.field_addr(c.args[0], TP, 'mHour')])


def _field_in(cls_field, lo, hi, cls=TP, old_dom=None):
    def post(c):
        o = c.old.field(c.args[0], cls, cls_field)
        n = c.new.field(c.args[0], cls, cls_field)
        nxt = o + 1
        out = [('in-interval', z3.Implies(old_dom(o) if old_dom else z3.BoolVal(True), z3.And(z3.UGE(n, lo), z3.ULE(n, hi)))),
               ('successor-or-wrap', z3.Implies(z3.And(z3.UGE(o, lo), z3.ULE(o, hi)),
                                                n == z3.If(o == hi, z3.BitVecVal(lo, 8), nxt)))]
        return out
    return post


contract('ace_time::time_period_mutation::incrementHour(ace_time::TimePeriod&)', props=['C17'],
         ensures=_field_in('mHour', 0, 23), assigns=lambda c: [c.field_addr(c.args[0], TP, 'mHour')])
contract('ace_time::time_period_mutation::incrementMinute(ace_time::TimePeriod&)', props=['C17'],
         ensures=_field_in('mMinute', 0, 59), assigns=lambda c: [c.field_addr(c.args[0], TP, 'mMinute')])

Z = 'ace_time::zoned_date_time_mutation::'
contract(Z + 'incrementMonth(ace_time::ZonedDateTime&)', props=['C17'],
         ensures=_field_in('mOffsetDateTime.mLocalDateTime.mLocalDate.mMonth', 1, 12, ZDT),
         assigns=lambda c: [c.field_addr(c.args[0], ZDT, 'mOffsetDateTime.mLocalDateTime.mLocalDate.mMonth')])
contract(Z + 'incrementDay(ace_time::ZonedDateTime&)', props=['C17'],
         ensures=_field_in('mOffsetDateTime.mLocalDateTime.mLocalDate.mDay', 1, 31, ZDT),
         assigns=lambda c: [c.field_addr(c.args[0], ZDT, 'mOffsetDateTime.mLocalDateTime.mLocalDate.mDay')])
contract(Z + 'incrementHour(ace_time::ZonedDateTime&)', props=['C17'],
         ensures=_field_in('mOffsetDateTime.mLocalDateTime.mLocalTime.mHour', 0, 23, ZDT),
         assigns=lambda c: [c.field_addr(c.args[0], ZDT, 'mOffsetDateTime.mLocalDateTime.mLocalTime.mHour')])
contract(Z + 'incrementMinute(ace_time::ZonedDateTime&)', props=['C17'],
         ensures=_field_in('mOffsetDateTime.mLocalDateTime.mLocalTime.mMinute', 0, 59, ZDT),
         assigns=lambda c: [c.field_addr(c.args[0], ZDT, 'mOffsetDateTime.mLocalDateTime.mLocalTime.mMinute')])

YT = 'mOffsetDateTime.mLocalDateTime.mLocalDate.mYearTiny'


def _inc_year_post(c):
    o = c.old.field(c.args[0], ZDT, YT)
    n = c.new.field(c.args[0], ZDT, YT)
    dom = z3.And(o >= 0, o <= 99)
    return [('in-interval', z3.Implies(dom, z3.And(n >= 0, n <= 99))),
            ('successor-or-wrap', z3.Implies(dom, n == z3.If(o == 99, z3.BitVecVal(0, 8), o + 1))),
            # the statement quantifies over all byte values of the field:
            ('in-interval-for-every-byte-value', z3.And(n >= 0, n <= 99))]


contract(Z + 'incrementYear(ace_time::ZonedDateTime&)', props=['C17'], ensures=_inc_year_post,
         assigns=lambda c: [c.field_addr(c.args[0], ZDT, YT)])

# ---- TimeOffset ---------------------------------------------------------------------

contract('ace_time::TimeOffset::forHours(signed char)', pure=True, props=['C17'],
         ensures=lambda c: [('minutes', c.result == sx(c.args[0], 16) * 60)])
contract('ace_time::TimeOffset::forMinutes(short)', pure=True, props=['C17'],
         ensures=lambda c: [('minutes', c.result == c.args[0])])
contract('ace_time::TimeOffset::forHourMinute(signed char, signed char)', pure=True, props=['C17'],
         ensures=lambda c: [('minutes', c.result == sx(c.args[0], 16) * 60 + sx(c.args[1], 16))])
contract('ace_time::TimeOffset::toSeconds() const', pure=True, props=['C17'],
         ensures=lambda c: [('60x', c.result == sx(c.old.field(c.this, TO, 'mMinutes')) * 60)])
contract('ace_time::TimeOffset::toMinutes() const', pure=True, props=['C17'],
         ensures=lambda c: [('field', c.result == c.old.field(c.this, TO, 'mMinutes'))])


def tdiv60(m16):
    """C++ truncating division/remainder of a 16-bit value by 60 (spec: via sign and magnitude)."""
    m = sx(m16)
    mag = z3.If(m < 0, -m, m)
    q = z3.UDiv(mag, bv32(60))
    r = z3.URem(mag, bv32(60))
    return z3.If(m < 0, -q, q), z3.If(m < 0, -r, r)


def _to_hm_post(c):
    m = c.old.field(c.this, TO, 'mMinutes')
    h8 = c.new.load(c.args[1], 1)
    m8 = c.new.load(c.args[2], 1)
    q, r = tdiv60(m)
    fits = z3.And(m >= -128 * 60 - 59, m <= 127 * 60 + 59)
    return [('hour', z3.Implies(fits, sx(h8) == q)), ('minute', z3.Implies(fits, sx(m8) == r)),
            ('recompose', z3.Implies(fits, sx(h8) * 60 + sx(m8) == sx(m))),
            ('same-sign', z3.Implies(fits, z3.And(z3.Implies(m >= 0, z3.And(h8 >= 0, m8 >= 0)),
                                                  z3.Implies(m <= 0, z3.And(h8 <= 0, m8 <= 0))))),
            ('minute-part-below-60', z3.Implies(fits, z3.And(m8 > -60, m8 < 60)))]


contract('ace_time::TimeOffset::toHourMinute(signed char&, signed char&) const', props=['C17'],
         lang_requires=lambda c: [disjoint(c.ex, c.args[1], 1, c.args[2], 1), disjoint(c.ex, c.this, 2, c.args[1], 1),
                                  disjoint(c.ex, c.this, 2, c.args[2], 1)],
         ensures=_to_hm_post, assigns=lambda c: [(c.args[1], 1), (c.args[2], 1)])

INC15 = 'ace_time::time_offset_mutation::increment15Minutes(ace_time::TimeOffset&)'


def _inc15_post(c):
    o = c.old.field(c.args[0], TO, 'mMinutes')
    n = c.new.field(c.args[0], TO, 'mMinutes')
    dom = z3.And(o >= -960, o <= 960)
    return [('stays-in-range', z3.Implies(dom, z3.And(n >= -960, n <= 960))),
            ('plus-15-or-wrap', z3.Implies(dom, n == z3.If(o + 15 > 960, z3.BitVecVal(-960, 16), o + 15)))]


contract(INC15, props=['C17'], ensures=_inc15_post, assigns=lambda c: [(c.args[0], 2)])


# ---- lemmas ----------------------------------------------------------------------------

@lemma('C17')
def period_round_trip(ex):
    """TimePeriod(s).toSeconds() == s for every |s| <= 921599 (over the two contracts)."""
    from vc.symex import Ptr
    mem0 = z3.Const('lm_mem', ex.mem_sort)
    mem1 = z3.Const('lm_mem1', ex.mem_sort)
    this = Ptr(None, z3.BitVec('lm_this', ex.pbits))
    s = z3.BitVec('lm_s', 32)
    back = z3.BitVec('lm_back', 32)
    _, p1 = instantiate(ex, 'ace_time::TimePeriod::TimePeriod(int)', [this, s], mem_old=mem0, mem_new=mem1)
    _, p2 = instantiate(ex, 'ace_time::TimePeriod::toSeconds() const', [this], mem_old=mem1, result=back)
    return [LemmaOb('TimePeriod(s).toSeconds() == s', p1 + p2 + [s >= -MAXP, s <= MAXP], back == s)]


@lemma('C17')
def negate_flips_length(ex):
    from vc.symex import Ptr, MemView
    mem0 = z3.Const('lm_mem', ex.mem_sort)
    mem1 = z3.Const('lm_mem1', ex.mem_sort)
    p = Ptr(None, z3.BitVec('lm_p', ex.pbits))
    _, post = instantiate(ex, NEG, [p], mem_old=mem0, mem_new=mem1)
    o = tp_fields(MemView(ex, {}, mem0), p)
    n = tp_fields(MemView(ex, {}, mem1), p)
    return [LemmaOb('negate flips the signed length', post + [z3.Or(o[3] == 1, o[3] == z3.BitVecVal(-1, 8))],
                    tp_signed_len(*n) == -tp_signed_len(*o))]


@lemma('C17')
def offset_hour_minute_round_trip(ex):
    """toHourMinute(forHourMinute(h, m)) == (h, m) for same-sign parts with |m| < 60; seconds = 60 * minutes."""
    from vc.symex import Ptr, MemView
    mem0 = z3.Const('lm_mem', ex.mem_sort)
    mem1 = z3.Const('lm_mem1', ex.mem_sort)
    h, m = z3.BitVec('lm_h', 8), z3.BitVec('lm_m', 8)
    off = z3.BitVec('lm_off', 16)
    _, p1 = instantiate(ex, 'ace_time::TimeOffset::forHourMinute(signed char, signed char)', [h, m], result=off)
    this = Ptr(None, z3.BitVec('lm_this', ex.pbits))
    ph = Ptr(None, z3.BitVec('lm_ph', ex.pbits))
    pm = Ptr(None, z3.BitVec('lm_pm', ex.pbits))
    memA = obj_at(ex, mem0, this.off, off)
    pre2, p2 = instantiate(ex, 'ace_time::TimeOffset::toHourMinute(signed char&, signed char&) const',
                           [this, ph, pm], mem_old=memA, mem_new=mem1)
    h2 = MemView(ex, {}, mem1).load(ph, 1)
    m2 = MemView(ex, {}, mem1).load(pm, 1)
    same = z3.And(m > -60, m < 60, z3.Or(z3.And(h >= 0, m >= 0), z3.And(h <= 0, m <= 0)))
    secs = z3.BitVec('lm_secs', 32)
    _, p3 = instantiate(ex, 'ace_time::TimeOffset::toSeconds() const', [this], mem_old=memA, result=secs)
    return [LemmaOb('toHourMinute(forHourMinute(h,m)) == (h,m)', p1 + p2 + pre2 + [same], z3.And(h2 == h, m2 == m)),
            LemmaOb('toSeconds == 60 * toMinutes', p1 + p3, secs == sx(off) * 60)]


@lemma('C17')
def increment15_cycles(ex):
    """on the multiples of 15 in [-960, 960] the increment is the successor of a single 129-cycle."""
    from vc.symex import Ptr, MemView
    out = []
    mem0 = z3.Const('lm_mem', ex.mem_sort)
    mem1 = z3.Const('lm_mem1', ex.mem_sort)
    mem2 = z3.Const('lm_mem2', ex.mem_sort)
    mem3 = z3.Const('lm_mem3', ex.mem_sort)
    p = Ptr(None, z3.BitVec('lm_p', ex.pbits))
    q = Ptr(None, z3.BitVec('lm_q', ex.pbits))
    _, pa = instantiate(ex, INC15, [p], mem_old=mem0, mem_new=mem1)
    _, pb = instantiate(ex, INC15, [q], mem_old=mem2, mem_new=mem3)
    a0 = MemView(ex, {}, mem0).field(p, TO, 'mMinutes')
    a1 = MemView(ex, {}, mem1).field(p, TO, 'mMinutes')
    b0 = MemView(ex, {}, mem2).field(q, TO, 'mMinutes')
    b1 = MemView(ex, {}, mem3).field(q, TO, 'mMinutes')
    grid = lambda v: z3.And(v >= -960, v <= 960, z3.SRem(sx(v) + 960, bv32(15)) == 0)
    out.append(LemmaOb('increment15 maps the 15-minute grid into itself', pa + [grid(a0)], grid(a1)))
    out.append(LemmaOb('increment15 is injective on the grid', pa + pb + [grid(a0), grid(b0), a1 == b1], a0 == b0))
    # rank function: k(v) = (v + 960) / 15 in 0..128 ; f advances k by one modulo 129 => one cycle through all 129 values
    k = lambda v: z3.UDiv(sx(v) + 960, bv32(15))
    out.append(LemmaOb('increment15 advances the grid index by one modulo 129', pa + [grid(a0)],
                       k(a1) == z3.URem(k(a0) + 1, bv32(129))))
    return out
