"""C15 -- printed forms are exact ISO-8601 and parse back to the same value (ghost output stream)."""
import z3
from .reg import contract, lemma, bv32, sx, zx, byte, INT32_MIN, LemmaOb, instantiate, obj_at, U, S
from vc.symex import Ptr, BV, MemView, Ctx
from . import calendar as cal
from .calendar import ld_fields, lt_fields, ldt_fields, ld_is_error, lt_is_error, ldt_is_error
from . import zoned
from . import reg as _reg

# The ghost output stream is a python list in st.ghost['out']; items are
#   8-bit terms (one character), ('dec', v) for the decimal numeral of an integer outside the 4-digit case,
#   ('str', pointer) for a NUL-terminated string, ('tz', pointer) for whatever TimeZone::printTo writes.


def _out(st):
    return list(st.ghost.get('out', []))


def _emit(st, items):
    st.ghost = dict(st.ghost)
    st.ghost['out'] = _out(st) + items


def ch(c):
    return z3.BitVecVal(ord(c), 8)


def digit(v, w=32):
    """character of a value 0..9 given as a w-bit term"""
    return z3.Extract(7, 0, v) + 48


def _print_char(ex, st, c):
    _emit(st, [c.args[1]])
    return ex.fresh('print_ret', 64)


def _cond(st, cnd):
    st.ghost = dict(st.ghost)
    st.ghost['out_cond'] = list(st.ghost.get('out_cond', [])) + [cnd]


def _print_int(ex, st, c):
    v = c.args[1]
    # ASSUMED contract of Print::print(int): appends the decimal numeral; for 1000..9999 that is exactly four digits.
    # The emitted text is exact under the recorded side condition (other values are outside the property's domain).
    _cond(st, z3.And(v >= 1000, v <= 9999))
    _emit(st, [digit(z3.UDiv(v, bv32(1000))), digit(z3.URem(z3.UDiv(v, bv32(100)), bv32(10))),
               digit(z3.URem(z3.UDiv(v, bv32(10)), bv32(10))), digit(z3.URem(v, bv32(10)))])
    return ex.fresh('print_ret', 64)


def _print_str(ex, st, c):
    _emit(st, [('str', c.args[1])])
    return ex.fresh('print_ret', 64)


def _print_pad2(ex, st, c):
    v, pad = c.args[1], c.args[2]
    # ASSUMED contract of ace_common::printPad2To: for val < 100 exactly two characters, the first being the pad for val < 10
    _cond(st, z3.ULT(v, 100))
    v8 = z3.Extract(7, 0, v)
    _emit(st, [z3.If(z3.ULT(v8, 10), pad, z3.UDiv(v8, z3.BitVecVal(10, 8)) + 48), z3.URem(v8, z3.BitVecVal(10, 8)) + 48])
    return None


contract('Print::print(char)', extern=True, model=_print_char, note='ASSUMED: appends the character to the output')
contract('Print::print(int)', extern=True, model=_print_int, note='ASSUMED: appends the decimal numeral')
contract('Print::print(char const*)', extern=True, model=_print_str, note='ASSUMED: appends the bytes up to NUL')
contract('Print::print(__FlashStringHelper const*)', extern=True, model=_print_str, note='ASSUMED: appends the bytes up to NUL')
contract('ace_common::printPad2To(Print&, unsigned short, char)', extern=True, model=_print_pad2,
         note='ASSUMED (AceCommon): two characters for val < 100, padded with the given character')


def STRLEN(ex):
    """ghost: length of the NUL-terminated string at an address (the parsers write no memory, so it is a function of the address)"""
    return z3.Function('STRLEN_%d' % ex.pbits, z3.BitVecSort(ex.pbits), z3.BitVecSort(ex.pbits))


def _strlen_model(ex, st, c):
    r = STRLEN(ex)(ex.ptr_to_bv(c.args[0]))
    st.log.append(('strlen', ex.ptr_to_bv(c.args[0]), [r]))
    return r


contract('strlen', extern=True, model=_strlen_model, note='ASSUMED: libc strlen returns the length of the NUL-terminated string')
contract('abs', extern=True, model=lambda ex, st, c: z3.If(c.args[0] < 0, -c.args[0], c.args[0]), note='ASSUMED: libc abs')


def exact(c):
    """side conditions under which the modelled output text is exact (two-digit / four-digit numerals)"""
    cs = list(c.ghost.get('out_cond', []))
    return z3.And(cs) if cs else z3.BoolVal(True)


def out_equals(c, expected):
    """list of (label, clause): the ghost output of this call is exactly `expected` (list of 8-bit terms / tokens)"""
    got = list(c.ghost.get('out', []))
    clauses = [('length', z3.BoolVal(len(got) == len(expected)))]
    for k, (g, e) in enumerate(zip(got, expected)):
        if isinstance(g, tuple) or isinstance(e, tuple):
            ok = isinstance(g, tuple) and isinstance(e, tuple) and g[0] == e[0]
            if ok and g[0] == 'str':
                ok = _cstring(c, g[1]) == e[1]
                clauses.append(('item-%d' % k, z3.BoolVal(ok)))
            elif ok and g[0] == 'tz':
                clauses.append(('item-%d' % k, c.ex.ptr_to_bv(g[1]) == c.ex.ptr_to_bv(e[1])))
            else:
                clauses.append(('item-%d' % k, z3.BoolVal(False)))
        else:
            clauses.append(('item-%d' % k, g == e))
    return clauses


def _cstring(c, p):
    """concrete text of a string literal (constant global) or None"""
    if not isinstance(p, Ptr) or p.obj is None or not p.obj.const:
        return None
    data = c.ex.global_bytes[p.obj.id]
    out = []
    for b in data:
        if not z3.is_bv_value(b):
            return None
        if b.as_long() == 0:
            break
        out.append(chr(b.as_long()))
    return ''.join(out)


def two(v8):
    """the two decimal digits of a byte value < 100"""
    return [z3.UDiv(v8, z3.BitVecVal(10, 8)) + 48, z3.URem(v8, z3.BitVecVal(10, 8)) + 48]


def four(y32):
    return [digit(z3.UDiv(y32, bv32(1000))), digit(z3.URem(z3.UDiv(y32, bv32(100)), bv32(10))),
            digit(z3.URem(z3.UDiv(y32, bv32(10)), bv32(10))), digit(z3.URem(y32, bv32(10)))]


def iso_datetime(f):
    yt, m, d, h, mi, s = f
    return four(sx(yt) + 2000) + [ch('-')] + two(m) + [ch('-')] + two(d) + [ch('T')] + two(h) + [ch(':')] + two(mi) + [ch(':')] + two(s)


def iso_offset(minutes16):
    m = sx(minutes16)
    neg = m < 0
    mag = z3.If(neg, -m, m)
    hh = z3.Extract(7, 0, z3.UDiv(mag, bv32(60)))
    mm = z3.Extract(7, 0, z3.URem(mag, bv32(60)))
    return [z3.If(neg, ch('-'), ch('+'))] + two(hh) + [ch(':')] + two(mm)


def printable_datetime(f):
    """valid for printing: not flagged by isError (then year is 1873..2127, month/day/hour/minute/second < 100)"""
    return z3.Not(ldt_is_error(f))


def _ldt_print_post(c):
    f = ldt_fields(c.old, c.this)
    outs = []
    err = ldt_is_error(f)
    got = list(c.ghost.get('out', []))
    if len(got) == 1:
        outs += [('error-placeholder', z3.And(err, z3.BoolVal(isinstance(got[0], tuple) and got[0][0] == 'str' and _cstring(c, got[0][1]) == '<Invalid LocalDateTime>')))]
    else:
        outs += [('valid-prints-iso', z3.Not(err)), ('numerals-are-two-and-four-digit', exact(c))] + [('iso:' + l, e) for l, e in out_equals(c, iso_datetime(f))]
    return outs


contract('ace_time::LocalDateTime::printTo(Print&) const', props=['C15'], ensures=_ldt_print_post, assigns=lambda c: [])


def _lt_print_post(c):
    h, mi, s = lt_fields(c.old, c.this)
    err = lt_is_error(h, mi, s)
    got = list(c.ghost.get('out', []))
    if len(got) == 1:
        return [('error-placeholder', z3.And(err, z3.BoolVal(isinstance(got[0], tuple) and _cstring(c, got[0][1]) == '<Invalid LocalTime>')))]
    return [('valid-prints-iso', z3.Not(err)), ('numerals-are-two-digit', exact(c))] + [('iso:' + l, e) for l, e in out_equals(c, two(h) + [ch(':')] + two(mi) + [ch(':')] + two(s))]


contract('ace_time::LocalTime::printTo(Print&) const', props=['C15'], ensures=_lt_print_post, assigns=lambda c: [])


def _off_print_post(c):
    m = c.old.field(c.this, 'ace_time::TimeOffset', 'mMinutes')
    inr = z3.And(m >= -5999, m <= 5999)
    return [('numerals-are-two-digit-within-99:59', z3.Implies(inr, exact(c)))] + [('iso:' + l, z3.Implies(inr, e)) for l, e in out_equals(c, iso_offset(m))]


contract('ace_time::TimeOffset::printTo(Print&) const', props=['C15'], ensures=_off_print_post, assigns=lambda c: [])


def _sub_print(tag, expected_fn):
    """model of a printTo used from an enclosing printTo: appends the exact text its own contract guarantees"""
    def model(ex, st, c):
        items = expected_fn(ex, st, c)
        _emit(st, items)
        return None
    return model


def _odt_print_post(c):
    f, off = zoned.odt_fields_mem(c.old, c.this)
    err = zoned.odt_is_error(f, off)
    inr = z3.And(off >= -5999, off <= 5999)
    got = list(c.ghost.get('out', []))
    if len(got) == 1:
        return [('error-placeholder', z3.And(err, z3.BoolVal(isinstance(got[0], tuple) and _cstring(c, got[0][1]) == '<Invalid OffsetDateTime>')))]
    return [('valid-prints-iso', z3.Not(err)), ('numerals-exact', z3.Implies(inr, exact(c)))] + [('iso:' + l, z3.Implies(inr, e)) for l, e in out_equals(c, iso_datetime(f) + iso_offset(off))]


contract('ace_time::OffsetDateTime::printTo(Print&) const', props=['C15'], ensures=_odt_print_post, assigns=lambda c: [])


def _tz_print_model(ex, st, c):
    _emit(st, [('tz', c.args[0])])
    return None


# TimeZone::printTo as used from ZonedDateTime::printTo: whatever the zone prints (its name) -- its own contract is C08's
def _zdt_print_post(c):
    f, off = zoned.odt_fields_mem(c.old, c.this)
    err = zoned.odt_is_error(f, off)
    inr = z3.And(off >= -5999, off <= 5999)
    tz_off, _ = c.mod.field(zoned.ZDT, 'mTimeZone')
    got = list(c.ghost.get('out', []))
    if len(got) == 1:
        return [('error-placeholder', z3.And(err, z3.BoolVal(isinstance(got[0], tuple) and _cstring(c, got[0][1]) == '<Invalid ZonedDateTime>')))]
    exp = iso_datetime(f) + iso_offset(off) + [ch('['), ('tz', c.ex.ptr_add(c.this, tz_off)), ch(']')]
    return [('valid-prints-iso-and-bracketed-zone', z3.Not(err)), ('numerals-exact', z3.Implies(inr, exact(c)))] + [('iso:' + l, z3.Implies(inr, e)) for l, e in out_equals(c, exp)]


ZDT_PRINT = 'ace_time::ZonedDateTime::printTo(Print&) const'
contract(ZDT_PRINT, props=['C15'], ensures=_zdt_print_post, assigns=lambda c: [])
# these postconditions describe the ghost output of their own call: inside an enclosing printTo they are executed in place
for _n in ('ace_time::LocalDateTime::printTo(Print&) const', 'ace_time::LocalTime::printTo(Print&) const',
           'ace_time::TimeOffset::printTo(Print&) const', 'ace_time::OffsetDateTime::printTo(Print&) const', ZDT_PRINT):
    _reg.REG[_n].inline_in_callers = True

# ---- parsers ---------------------------------------------------------------------------------------


def buf(view, p, n):
    return [view.load(view.ex.ptr_add(p, k), 1) for k in range(n)]


def dval(c8):
    """digit value computed the way the code does: (char - '0') in 8-bit arithmetic"""
    return c8 - 48


def is_digit(c8):
    return z3.And(z3.UGE(c8, 48), z3.ULE(c8, 57))


def _chain_pre(c, n, strarg=0):
    """the chainable parsers take `const char*& s`: the pointer variable and the text it points to do not overlap"""
    from .reg import disjoint
    pp = c.args[strarg]
    s = c.old.load_ptr(pp)
    b = c.ex.ptr_to_bv(s)
    return [disjoint(c.ex, pp, 8, s, n), z3.ULE(b, z3.BitVecVal((1 << 64) - 1 - n - 64, 64)), b != 0]


def _off_parse_post(c):
    pp = c.args[0]
    s = c.old.load_ptr(pp)
    t = buf(c.old, s, 6)
    r = c.result
    h = dval(t[1]) * 10 + dval(t[2])
    m = dval(t[4]) * 10 + dval(t[5])
    digits = z3.And(is_digit(t[1]), is_digit(t[2]), is_digit(t[4]), is_digit(t[5]))
    val = sx(h, 16) * 60 + sx(m, 16)
    news = c.ex.ptr_to_bv(c.new.load_ptr(pp))
    olds = c.ex.ptr_to_bv(s)
    return [('bad-sign-is-error', z3.Implies(z3.And(t[0] != ch('+'), t[0] != ch('-')), r == z3.BitVecVal(-32768, 16))),
            ('plus', z3.Implies(z3.And(t[0] == ch('+'), digits), r == val)),
            ('minus', z3.Implies(z3.And(t[0] == ch('-'), digits), r == -val))]


contract('ace_time::TimeOffset::forOffsetStringChainable(char const*&)', props=['C15'],
         requires=lambda c: _chain_pre(c, 6), ensures=_off_parse_post, assigns=lambda c: [(c.args[0], 8)])


def _date_parse_post(c):
    pp = c.args[0]
    s = c.old.load_ptr(pp)
    t = buf(c.old, s, 10)
    r = c.result
    digits = z3.And([is_digit(t[k]) for k in (0, 1, 2, 3, 5, 6, 8, 9)])
    year = sx(zx(dval(t[0]), 16) * 1000 + zx(dval(t[1]), 16) * 100 + zx(dval(t[2]), 16) * 10 + zx(dval(t[3]), 16))
    month = dval(t[5]) * 10 + dval(t[6])
    day = dval(t[8]) * 10 + dval(t[9])
    inr = z3.And(year >= 1873, year <= 2127)
    return [('year', z3.Implies(z3.And(digits, inr), sx(byte(r, 0)) + 2000 == year)),
            ('year-out-of-range-is-error', z3.Implies(z3.And(digits, z3.Not(inr)), byte(r, 0) == z3.BitVecVal(-128, 8))),
            ('month', z3.Implies(digits, byte(r, 1) == month)), ('day', z3.Implies(digits, byte(r, 2) == day)),
            ('consumes-ten-characters', c.ex.ptr_to_bv(c.new.load_ptr(pp)) == c.ex.ptr_to_bv(s) + 10)]


contract('ace_time::LocalDate::forDateStringChainable(char const*&)', props=['C15'],
         requires=lambda c: _chain_pre(c, 10), ensures=_date_parse_post, assigns=lambda c: [(c.args[0], 8)])


def _time_parse_post(c):
    pp = c.args[0]
    s = c.old.load_ptr(pp)
    t = buf(c.old, s, 8)
    r = c.result
    digits = z3.And([is_digit(t[k]) for k in (0, 1, 3, 4, 6, 7)])
    return [('hour', z3.Implies(digits, byte(r, 0) == dval(t[0]) * 10 + dval(t[1]))),
            ('minute', z3.Implies(digits, byte(r, 1) == dval(t[3]) * 10 + dval(t[4]))),
            ('second', z3.Implies(digits, byte(r, 2) == dval(t[6]) * 10 + dval(t[7]))),
            ('consumes-eight-characters', c.ex.ptr_to_bv(c.new.load_ptr(pp)) == c.ex.ptr_to_bv(s) + 8)]


contract('ace_time::LocalTime::forTimeStringChainable(char const*&)', props=['C15'],
         requires=lambda c: _chain_pre(c, 8), ensures=_time_parse_post, assigns=lambda c: [(c.args[0], 8)])


def _ldt_parse_post(c):
    pp = c.args[0]
    s = c.old.load_ptr(pp)
    sp = c.ex.ptr_to_bv(s)
    r = c.result
    # composed of the date parser on [0,10), one skipped character, the time parser on [11,19)
    d = [c.old.load(Ptr(None, sp + k), 1) for k in range(19)]
    digits = z3.And([is_digit(d[k]) for k in (0, 1, 2, 3, 5, 6, 8, 9, 11, 12, 14, 15, 17, 18)])
    year = sx(zx(dval(d[0]), 16) * 1000 + zx(dval(d[1]), 16) * 100 + zx(dval(d[2]), 16) * 10 + zx(dval(d[3]), 16))
    inr = z3.And(year >= 1873, year <= 2127)
    return [('year', z3.Implies(z3.And(digits, inr), sx(byte(r, 0)) + 2000 == year)),
            ('month', z3.Implies(digits, byte(r, 1) == dval(d[5]) * 10 + dval(d[6]))),
            ('day', z3.Implies(digits, byte(r, 2) == dval(d[8]) * 10 + dval(d[9]))),
            ('hour', z3.Implies(digits, byte(r, 3) == dval(d[11]) * 10 + dval(d[12]))),
            ('minute', z3.Implies(digits, byte(r, 4) == dval(d[14]) * 10 + dval(d[15]))),
            ('second', z3.Implies(digits, byte(r, 5) == dval(d[17]) * 10 + dval(d[18]))),
            ('consumes-nineteen-characters', c.ex.ptr_to_bv(c.new.load_ptr(pp)) == sp + 19)]


contract('ace_time::LocalDateTime::forDateStringChainable(char const*&)', props=['C15'],
         requires=lambda c: _chain_pre(c, 19), ensures=_ldt_parse_post, assigns=lambda c: [(c.args[0], 8)])


def _odt_parse_post(c):
    pp = c.args[0]
    s = c.old.load_ptr(pp)
    sp = c.ex.ptr_to_bv(s)
    r = c.result
    d = [c.old.load(Ptr(None, sp + k), 1) for k in range(25)]
    digits = z3.And([is_digit(d[k]) for k in (0, 1, 2, 3, 5, 6, 8, 9, 11, 12, 14, 15, 17, 18, 20, 21, 23, 24)])
    year = sx(zx(dval(d[0]), 16) * 1000 + zx(dval(d[1]), 16) * 100 + zx(dval(d[2]), 16) * 10 + zx(dval(d[3]), 16))
    inr = z3.And(year >= 1873, year <= 2127)
    h = dval(d[20]) * 10 + dval(d[21])
    m = dval(d[23]) * 10 + dval(d[24])
    val = sx(h, 16) * 60 + sx(m, 16)
    off = z3.Extract(63, 48, r)
    signed = z3.Or(d[19] == ch('+'), d[19] == ch('-'))
    return [('year', z3.Implies(z3.And(digits, inr), sx(byte(r, 0)) + 2000 == year)),
            ('month', z3.Implies(digits, byte(r, 1) == dval(d[5]) * 10 + dval(d[6]))),
            ('day', z3.Implies(digits, byte(r, 2) == dval(d[8]) * 10 + dval(d[9]))),
            ('hour', z3.Implies(digits, byte(r, 3) == dval(d[11]) * 10 + dval(d[12]))),
            ('minute', z3.Implies(digits, byte(r, 4) == dval(d[14]) * 10 + dval(d[15]))),
            ('second', z3.Implies(digits, byte(r, 5) == dval(d[17]) * 10 + dval(d[18]))),
            ('offset', z3.Implies(z3.And(digits, signed), off == z3.If(d[19] == ch('+'), val, -val))),
            ('bad-sign-is-error-offset', z3.Implies(z3.Not(signed), off == z3.BitVecVal(-32768, 16)))]


contract('ace_time::OffsetDateTime::forDateStringChainable(char const*&)', props=['C15'],
         requires=lambda c: _chain_pre(c, 25), ensures=_odt_parse_post, assigns=lambda c: [(c.args[0], 8)])


def _short_is_error(minimum, is_err, exact=False):
    def post(c):
        # stated over the ghost length of the argument string, so that the clause means the same at a call site as at the function's
        # own exit (a clause read off the call log would speak about the caller's calls there)
        n = STRLEN(c.ex)(c.ex.ptr_to_bv(c.args[0]))
        short = (n != minimum) if exact else z3.ULT(n, minimum)
        return [('too-short-parses-to-error', z3.Implies(short, is_err(c.result)))]
    return post


def _str_pre(c):
    a = c.ex.ptr_to_bv(c.args[0])
    return [a != 0, z3.ULE(a, z3.BitVecVal((1 << 64) - 200, 64))]


contract('ace_time::LocalDate::forDateString(char const*)', props=['C15'], requires=_str_pre,
         ensures=_short_is_error(10, lambda r: ld_is_error(byte(r, 0), byte(r, 1), byte(r, 2))), assigns=lambda c: [])
contract('ace_time::LocalTime::forTimeString(char const*)', props=['C15'], requires=_str_pre,
         ensures=_short_is_error(8, lambda r: lt_is_error(byte(r, 0), byte(r, 1), byte(r, 2))), assigns=lambda c: [])
contract('ace_time::LocalDateTime::forDateString(char const*)', props=['C15'], requires=_str_pre,
         ensures=_short_is_error(19, lambda r: ldt_is_error(tuple(byte(r, k) for k in range(6)))), assigns=lambda c: [])
contract('ace_time::TimeOffset::forOffsetString(char const*)', props=['C15'], requires=_str_pre,
         ensures=_short_is_error(6, lambda r: r == z3.BitVecVal(-32768, 16), exact=True), assigns=lambda c: [])
contract('ace_time::OffsetDateTime::forDateString(char const*)', props=['C15'], requires=_str_pre,
         ensures=_short_is_error(25, lambda r: zoned.odt_is_error(tuple(byte(r, k) for k in range(6)), z3.Extract(63, 48, r))), assigns=lambda c: [])


# ---- round trip lemmas -------------------------------------------------------------------------------

@lemma('C15')
def print_parse_round_trip(ex):
    """parse(print(x)) == x for every valid date-time 1873..2127 and every offset within +-99:59:
    the text the print contracts guarantee is laid out in memory and fed to the parse contracts."""
    out = []
    mem = z3.Const('lm_mem', ex.mem_sort)
    # --- offset date-time ---
    f = tuple(z3.BitVec('lm_f%d' % k, 8) for k in range(6))
    off = z3.BitVec('lm_off', 16)
    text = iso_datetime(f) + iso_offset(off)
    import os
    # quick tier: the pointer variable lies 64 bytes after the start of the text (the contracts only require the two not to
    # overlap and mention no absolute address); thorough tier: fully symbolic placement.  The text address is the free variable
    # and the pointer bytes are written first, so that reading the pointer back gives the variable itself and reading the text
    # resolves syntactically (the other way round each lemma cost 20-40 s of array reasoning and flipped to unknown under load)
    sp = z3.BitVec('lm_s', 64)
    pp = Ptr(None, z3.BitVec('lm_pp', 64) if os.environ.get('VERIF_TIER') == 'thorough' else sp + 64)

    TO = 900 if os.environ.get('VERIF_TIER') == 'thorough' else None    # symbolic placement: 70-95 s per lemma on an idle machine

    def lay_out(chars):
        m = mem
        if os.environ.get('VERIF_TIER') == 'thorough':
            # symbolic placement: text first, the pointer variable on top (reading the pointer back is then syntactic, and the text
            # reads go through the separation hypothesis)
            for k, t in enumerate(chars):
                m = z3.Store(m, sp + k, t)
            for k in range(8):
                m = z3.Store(m, pp.off + k, z3.Extract(8 * k + 7, 8 * k, sp))
            return m
        for k in range(8):                      # the pointer variable holds sp
            m = z3.Store(m, pp.off + k, z3.Extract(8 * k + 7, 8 * k, sp))
        for k, t in enumerate(chars):
            m = z3.Store(m, sp + k, t)
        return m
    m2 = lay_out(text)
    r = z3.BitVec('lm_r', 64)
    mem3 = z3.Const('lm_mem3', ex.mem_sort)
    pre, lpost = instantiate(ex, 'ace_time::OffsetDateTime::forDateStringChainable(char const*&)', [pp], mem_old=m2, mem_new=mem3, result=r, labelled=True)
    post = [e for _, e in lpost]
    valid = z3.And(cal.ldt_valid(f), off >= -5999, off <= 5999)
    sep = z3.Or(z3.ULE(pp.off + 8, sp), z3.ULE(sp + 25, pp.off))
    g, goff = zoned.odt_fields_val(r)
    base = [valid, sep, z3.ULE(sp, z3.BitVecVal((1 << 64) - 400, 64)), sp != 0, z3.ULE(pp.off, z3.BitVecVal((1 << 64) - 400, 64)), pp.off != 0]
    hyp = post + base
    out.append(LemmaOb('OffsetDateTime: parse(print(x)) == x [parser precondition]', base, z3.And(*pre)))
    for k, nm in enumerate(('year', 'month', 'day', 'hour', 'minute', 'second')):
        # only the parser clause for this field is needed as a hypothesis
        out.append(LemmaOb('OffsetDateTime: parse(print(x)) == x [%s]' % nm, [e for l, e in lpost if l == nm] + base, f[k] == g[k], logic=None, timeout=TO))
    out.append(LemmaOb('OffsetDateTime: parse(print(x)) == x [offset]', [e for l, e in lpost if l == 'offset'] + base, goff == off,
                       cases=[('neg', off < 0), ('nonneg', off >= 0)], logic=None, timeout=TO))
    # --- offset alone, all of +-99:59 ---
    text2 = iso_offset(off)
    m4 = lay_out(text2)
    r2 = z3.BitVec('lm_r2', 16)
    pre2, post2 = instantiate(ex, 'ace_time::TimeOffset::forOffsetStringChainable(char const*&)', [pp], mem_old=m4, mem_new=mem3, result=r2)
    sep2 = z3.Or(z3.ULE(pp.off + 8, sp), z3.ULE(sp + 6, pp.off))
    out.append(LemmaOb('TimeOffset: parse(print(o)) == o for every offset within +-99:59 (sign kept for -00:59..-00:01)',
                       post2 + [off >= -5999, off <= 5999, sep2, z3.ULE(sp, z3.BitVecVal((1 << 64) - 400, 64)), sp != 0, z3.ULE(pp.off, z3.BitVecVal((1 << 64) - 400, 64)), pp.off != 0],
                       z3.And(*(pre2 + [r2 == off]))))
    out.append(LemmaOb('TimeOffset: the sign character is "-" exactly for negative offsets', [off >= -5999, off <= 5999],
                       (iso_offset(off)[0] == ch('-')) == (off < 0)))
    # --- local date-time ---
    text3 = iso_datetime(f)
    m5 = lay_out(text3)
    r3 = z3.BitVec('lm_r3', 48)
    pre3, lpost3 = instantiate(ex, 'ace_time::LocalDateTime::forDateStringChainable(char const*&)', [pp], mem_old=m5, mem_new=mem3, result=r3, labelled=True)
    post3 = [e for _, e in lpost3]
    sep3 = z3.Or(z3.ULE(pp.off + 8, sp), z3.ULE(sp + 19, pp.off))
    out.append(LemmaOb('LocalDateTime: parse(print(x)) == x for every valid date-time 1873..2127 [parser precondition]',
                       [cal.ldt_valid(f), sep3, z3.ULE(sp, z3.BitVecVal((1 << 64) - 400, 64)), sp != 0, z3.ULE(pp.off, z3.BitVecVal((1 << 64) - 400, 64)), pp.off != 0],
                       z3.And(*pre3)))
    for k, nm in enumerate(('year', 'month', 'day', 'hour', 'minute', 'second')):
        out.append(LemmaOb('LocalDateTime: parse(print(x)) == x [%s]' % nm,
                           [e for l, e in lpost3 if l == nm] + [cal.ldt_valid(f), sep3, z3.ULE(sp, z3.BitVecVal((1 << 64) - 400, 64)), sp != 0, z3.ULE(pp.off, z3.BitVecVal((1 << 64) - 400, 64)), pp.off != 0],
                           byte(r3, k) == f[k], logic=None, timeout=TO))
    return out


# ---- the processors print the name of the zone they are bound to (C15: "... followed by the bracketed zone name"; that the
# processor is bound to the zone of the TimeZone that prints is the binding contract of TimeZone::printTo, C08) ----------
def _proc_print_post(cls, info_cls, field):
    def post(c):
        zi = c.old.field(c.this, cls, 'mZoneInfo.mZoneInfo')
        want = c.old.load(Ptr(None, zi + c.mod.field(info_cls, field)[0]), c.ex.pbytes)
        got = list(c.ghost.get('out', []))
        ok = len(got) == 1 and isinstance(got[0], tuple) and got[0][0] == 'str'
        return [('prints-one-string', z3.BoolVal(ok)),
                ('the-name-recorded-in-the-bound-zone-info', (c.ex.ptr_to_bv(got[0][1]) == want) if ok else z3.BoolVal(False))]
    return post


from vc.symex import Ptr  # noqa: E402
for _cls, _info in (('ace_time::BasicZoneProcessor', 'ace_time::basic::ZoneInfo'), ('ace_time::ExtendedZoneProcessor', 'ace_time::extended::ZoneInfo')):
    contract(_cls + '::printTo(Print&) const', props=['C15'], requires=lambda c, _cls=_cls: [c.old.field(c.this, _cls, 'mZoneInfo.mZoneInfo') != 0],
             ensures=_proc_print_post(_cls, _info, 'name'), assigns=lambda c: [])
    _reg.REG[_cls + '::printTo(Print&) const'].inline_in_callers = True


# ---- ZonedDateTime::forDateString: the offset date-time parsed by OffsetDateTime::forDateString, in the manual zone of its offset ----
def _zdt_parse_post(c):
    res, s = c.args
    if not c.own:
        return []       # stated through this call's own call to OffsetDateTime::forDateString; nothing is exported to call sites
    calls = [e for e in c.log if e[0] == 'call' and e[1].startswith('ace_time::OffsetDateTime::forDateString')]
    if not calls:
        return [('parses-through-OffsetDateTime-forDateString', z3.BoolVal(False))]
    rv = calls[-1][3]                       # the OffsetDateTime value (coerced i64: six date-time bytes, two offset bytes)
    f, off = zoned.zdt_odt(c.new, res)
    from . import timezone as _tz
    tz_off, _ = c.mod.field(zoned.ZDT, 'mTimeZone')
    tzf = _tz.tz_fields(c.new, c.ex.ptr_add(res, tz_off))
    return [('same-string', c.ex.ptr_to_bv(calls[-1][2][0]) == c.ex.ptr_to_bv(s)),
            ('date-time-fields-of-the-parsed-value', z3.And(*[f[k] == byte(rv, k) for k in range(6)])),
            ('offset-of-the-parsed-value', off == z3.Extract(63, 48, rv)),
            ('zone-is-the-manual-zone-of-that-offset', z3.And(tzf['type'] == _tz.K_MANUAL, tzf['std'] == z3.Extract(63, 48, rv), tzf['dst'] == 0))]


contract('ace_time::ZonedDateTime::forDateString(char const*)', props=['C15'],
         requires=lambda c: [c.ex.ptr_to_bv(c.args[1]) != 0, z3.ULE(c.ex.ptr_to_bv(c.args[1]), z3.BitVecVal((1 << 64) - 200, 64))], ensures=_zdt_parse_post,
         assigns=lambda c: [(c.args[0], c.mod.size_of(c.mod.types['class.ace_time::ZonedDateTime']))])
