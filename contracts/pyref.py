"""C04 -- pairs of translated functions: Python ZoneSpecifier helper == C++ extended processor helper.
Each side is verified against the SAME semantic specification (one Python function instantiated once over mathematical
integers for the Python AST and once over 8-bit vectors for the LLVM IR), so the two agree on the shared domain."""
import os
import z3
from vc import build
from vc.pyvc import PyExec, Record, as_int

ZS = os.path.join(build.REPO, 'tools', 'zonedb', 'zone_specifier.py')


def python_pair_obligations():
    out = []
    # --- _get_most_recent_prior_year  <->  ExtendedZoneProcessor::getMostRecentPriorYear (sentinel -1 <-> kInvalidYearTiny)
    f, t, s, e = z3.Ints('py_from py_to py_start py_end')
    ex = PyExec(ZS)
    paths = ex.run('_get_most_recent_prior_year', {'from_year': f, 'to_year': t, 'start_year': s, 'end_year': e},
                   pre=[f >= 0, t >= 0, s >= 1, f <= 10000, t <= 10000, s <= 10000])
    y = z3.Int('q_y')
    for k, p in enumerate(paths):
        r = as_int(p.value)
        exists = z3.And(f < s, f <= t)
        out.append(('py:_get_most_recent_prior_year#none-gives-sentinel#%d' % k, p.pc, z3.Implies(z3.Not(f < s), r == -1)))
        out.append(('py:_get_most_recent_prior_year#is-in-the-rule-and-before-start#%d' % k, p.pc, z3.Implies(exists, z3.And(f <= r, r <= t, r < s))))
        out.append(('py:_get_most_recent_prior_year#is-the-most-recent#%d' % k, p.pc,
                    z3.Implies(exists, z3.ForAll([y], z3.Implies(z3.And(f <= y, y <= t, y < s), y <= r)))))
    # --- _compare_transition_to_match_fuzzy <-> compareTransitionToMatchFuzzy
    ty, tm, sy, sm, uy, um = z3.Ints('py_ty py_tm py_sy py_sm py_uy py_um')
    ex = PyExec(ZS)
    tr = Record({'transitionTime': Record({'y': ty, 'M': tm})})
    mt = Record({'startDateTime': Record({'y': sy, 'M': sm}), 'untilDateTime': Record({'y': uy, 'M': um})})
    paths = ex.run('_compare_transition_to_match_fuzzy', {'transition': tr, 'match': mt})
    tt, ms, mu = 12 * ty + tm, 12 * sy + sm, 12 * uy + um
    for k, p in enumerate(paths):
        r = as_int(p.value)
        out.append(('py:_compare_transition_to_match_fuzzy#more-than-a-month-before#%d' % k, p.pc, z3.Implies(tt < ms - 1, r == -1)))
        out.append(('py:_compare_transition_to_match_fuzzy#two-or-more-months-after#%d' % k, p.pc, z3.Implies(z3.And(z3.Not(tt < ms - 1), mu + 2 <= tt), r == 2)))
        out.append(('py:_compare_transition_to_match_fuzzy#within-slack#%d' % k, p.pc, z3.Implies(z3.And(z3.Not(tt < ms - 1), z3.Not(mu + 2 <= tt)), r == 1)))
    return out
