"""C04 -- pairs of translated functions: Python ZoneSpecifier helper == C++ extended processor helper.
Each side is verified against the SAME semantic specification (one Python function instantiated once over mathematical
integers for the Python AST and once over 8-bit vectors for the LLVM IR), so the two agree on the shared domain."""
import os
import z3
from vc import build
from vc.pyvc import PyExec, Record, TupleRec, as_int, as_bool

ZS = os.path.join(build.REPO, 'tools', 'zonedb', 'zone_specifier.py')


def python_pair_obligations():
    out = []
    # --- _get_most_recent_prior_year  <->  ExtendedZoneProcessor::getMostRecentPriorYear (sentinel -1 <-> kInvalidYearTiny)
    f, t, s, e = z3.Ints('py_from py_to py_start py_end')
    ex = PyExec(ZS)
    paths = ex.run('_get_most_recent_prior_year', {'from_year': f, 'to_year': t, 'start_year': s, 'end_year': e},
                   pre=[f >= 0, t >= 0, s >= 1, f <= 10000, t <= 10000, s <= 10000])
    y = z3.Int('q_y')
    for k, p in enumerate(paths):
        r = as_int(p.value)
        exists = z3.And(f < s, f <= t)
        out.append(('py:_get_most_recent_prior_year#none-gives-sentinel#%d' % k, p.pc, z3.Implies(z3.Not(f < s), r == -1)))
        out.append(('py:_get_most_recent_prior_year#is-in-the-rule-and-before-start#%d' % k, p.pc, z3.Implies(exists, z3.And(f <= r, r <= t, r < s))))
        out.append(('py:_get_most_recent_prior_year#is-the-most-recent#%d' % k, p.pc,
                    z3.Implies(exists, z3.ForAll([y], z3.Implies(z3.And(f <= y, y <= t, y < s), y <= r)))))
    # --- _compare_transition_to_match_fuzzy <-> compareTransitionToMatchFuzzy
    ty, tm, sy, sm, uy, um = z3.Ints('py_ty py_tm py_sy py_sm py_uy py_um')
    ex = PyExec(ZS)
    tr = Record({'transitionTime': Record({'y': ty, 'M': tm})})
    mt = Record({'startDateTime': Record({'y': sy, 'M': sm}), 'untilDateTime': Record({'y': uy, 'M': um})})
    paths = ex.run('_compare_transition_to_match_fuzzy', {'transition': tr, 'match': mt})
    tt, ms, mu = 12 * ty + tm, 12 * sy + sm, 12 * uy + um
    for k, p in enumerate(paths):
        r = as_int(p.value)
        out.append(('py:_compare_transition_to_match_fuzzy#more-than-a-month-before#%d' % k, p.pc, z3.Implies(tt < ms - 1, r == -1)))
        out.append(('py:_compare_transition_to_match_fuzzy#two-or-more-months-after#%d' % k, p.pc, z3.Implies(z3.And(z3.Not(tt < ms - 1), mu + 2 <= tt), r == 2)))
        out.append(('py:_compare_transition_to_match_fuzzy#within-slack#%d' % k, p.pc, z3.Implies(z3.And(z3.Not(tt < ms - 1), z3.Not(mu + 2 <= tt)), r == 1)))
    # --- ZoneSpecifier._compare_era_to_year_month <-> ExtendedZoneProcessor::compareEraToYearMonth
    uy, um, ud, us, y, m = z3.Ints('py_uy py_um py_ud py_us py_y py_m')
    ex = PyExec(ZS)
    era = Record({'untilYear': uy, 'untilMonth': um, 'untilDay': ud, 'untilSeconds': us})
    paths = ex.run('ZoneSpecifier._compare_era_to_year_month', {'era': era, 'year': y, 'month': m}, pre=[ud >= 1, us >= 0])
    lex_lt = lambda a, b: z3.Or(a[0] < b[0], z3.And(a[0] == b[0], z3.Or(a[1] < b[1], z3.And(a[1] == b[1], z3.Or(a[2] < b[2], z3.And(a[2] == b[2], a[3] < b[3]))))))
    U, Q = (uy, um, ud, us), (y, m, z3.IntVal(1), z3.IntVal(0))
    for k, p in enumerate(paths):
        r = as_int(p.value)
        out.append(('py:_compare_era_to_year_month#negative-iff-the-era-ends-before-the-month-starts#%d' % k, p.pc, (r < 0) == lex_lt(U, Q)))
        out.append(('py:_compare_era_to_year_month#positive-iff-the-era-ends-after-the-month-starts#%d' % k, p.pc, (r > 0) == lex_lt(Q, U)))
    # --- _compare_transition_to_match <-> ExtendedZoneProcessor::compareTransitionToMatch (position relative to the match)
    ORDER = ('y', 'M', 'd', 'ss', 'f')

    def dt(tag, suffix=None):
        f = z3.Int('py_%s_f' % tag) if suffix is None else suffix
        return TupleRec({'y': z3.Int('py_%s_y' % tag), 'M': z3.Int('py_%s_M' % tag), 'd': z3.Int('py_%s_d' % tag), 'ss': z3.Int('py_%s_ss' % tag), 'f': f}, ORDER)
    W, S, Uc = ord('w'), ord('s'), ord('u')
    start, until = dt('start'), dt('until')
    tw, ts, tu = dt('tw', z3.IntVal(W)), dt('ts', z3.IntVal(S)), dt('tu', z3.IntVal(Uc))
    ex = PyExec(ZS)
    tr = Record({'transitionTime': tw, 'transitionTimeS': ts, 'transitionTimeU': tu})
    mt = Record({'startDateTime': start, 'untilDateTime': until})
    suffix_ok = lambda f: z3.Or(f == W, f == S, f == Uc)
    pre = [suffix_ok(start.fields['f']), suffix_ok(until.fields['f'])]
    paths = ex.run('_compare_transition_to_match', {'transition': tr, 'match': mt}, pre=pre)

    def reading(f):
        return [z3.If(f == S, ts.fields[k], z3.If(f == Uc, tu.fields[k], tw.fields[k])) for k in ('y', 'M', 'd', 'ss')]

    def key_lt(a, b):
        return lex_lt(a, b)
    sv = [start.fields[k] for k in ('y', 'M', 'd', 'ss')]
    uv = [until.fields[k] for k in ('y', 'M', 'd', 'ss')]
    rs, ru = reading(start.fields['f']), reading(until.fields['f'])
    before = key_lt(rs, sv)
    at_start = z3.And([a == b for a, b in zip(rs, sv)])
    inside = key_lt(ru, uv)
    want = z3.If(before, -1, z3.If(at_start, 0, z3.If(inside, 1, 2)))
    for k, p in enumerate(paths):
        if p.outcome != 'return':
            out.append(('py:_compare_transition_to_match#no-exception-for-w-s-u-suffixes#%d' % k, p.pc, z3.BoolVal(False)))
            continue
        out.append(('py:_compare_transition_to_match#position-relative-to-the-match#%d' % k, p.pc, as_int(p.value) == want))
    return out


def create_match_obligations():
    """ZoneSpecifier._create_match <-> ExtendedZoneProcessor::createMatch: the era clipped to the viewing interval; the order of
    date tuples ignores the suffix (C++ operator<), a tuple that is not replaced keeps all five fields"""
    ORDER = ('y', 'M', 'd', 'ss', 'f')
    W, S, U = ord('w'), ord('s'), ord('u')

    def m_dt(ex, args, pc, y=None, M=None, d=None, ss=None, f=None):
        conv = lambda v: ord(v) if isinstance(v, str) and len(v) == 1 else v
        return TupleRec({'y': y, 'M': M, 'd': d, 'ss': ss, 'f': conv(f)}, ORDER)
    ex = PyExec(ZS, models={'DateTuple': m_dt, 'ZoneMatch': lambda ex, args, pc: args[0]})
    I = z3.Int
    prev = Record({'untilYear': I('p_y'), 'untilMonth': I('p_m'), 'untilDay': I('p_d'), 'untilSeconds': I('p_s'), 'untilTimeSuffix': I('p_f')})
    era = Record({'untilYear': I('e_y'), 'untilMonth': I('e_m'), 'untilDay': I('e_d'), 'untilSeconds': I('e_s'), 'untilTimeSuffix': I('e_f')})
    sym, uym = Record({'y': I('s_y'), 'M': I('s_m')}), Record({'y': I('u_y'), 'M': I('u_m')})
    ok = lambda f: z3.Or(f == W, f == S, f == U)
    paths = ex.run('ZoneSpecifier._create_match', {'prev_era': prev, 'zone_era': era, 'start_ym': sym, 'until_ym': uym}, pre=[ok(I('p_f')), ok(I('e_f'))])
    lex_lt = lambda a, b: z3.Or(a[0] < b[0], z3.And(a[0] == b[0], z3.Or(a[1] < b[1], z3.And(a[1] == b[1], z3.Or(a[2] < b[2], z3.And(a[2] == b[2], a[3] < b[3]))))))
    pu = (I('p_y'), I('p_m'), I('p_d'), I('p_s'), I('p_f'))
    eu = (I('e_y'), I('e_m'), I('e_d'), I('e_s'), I('e_f'))
    lower = (I('s_y'), I('s_m'), z3.IntVal(1), z3.IntVal(0), z3.IntVal(W))
    upper = (I('u_y'), I('u_m'), z3.IntVal(1), z3.IntVal(0), z3.IntVal(W))
    pick = lambda c, a, b: [z3.If(c, x, y) for x, y in zip(a, b)]
    want_start = pick(lex_lt(pu, lower), lower, pu)
    want_until = pick(lex_lt(upper, eu), upper, eu)
    out = []
    for k, p in enumerate(paths):
        st, un = p.value.fields['startDateTime'], p.value.fields['untilDateTime']
        out.append(('py:_create_match#starts-at-the-later-of-previous-until-and-interval-start#%d' % k, p.pc, z3.And([st.fields[n] == w for n, w in zip(ORDER, want_start)])))
        out.append(('py:_create_match#ends-at-the-earlier-of-era-until-and-interval-end#%d' % k, p.pc, z3.And([un.fields[n] == w for n, w in zip(ORDER, want_until)])))
        out.append(('py:_create_match#refers-to-the-era#%d' % k, p.pc, z3.BoolVal(p.value.fields['zoneEra'] is era)))
    return out


def process_transition_obligations():
    """ActiveSelectorInPlace._process_transition <-> ExtendedZoneProcessor::processActiveTransition: active flags and the latest
    prior transition, stated over the position of the transition relative to the match"""
    ORDER = ('y', 'M', 'd', 'ss', 'f')
    W, S, U = ord('w'), ord('s'), ord('u')

    def dt(tag, suffix=None):
        f = z3.Int('pt_%s_f' % tag) if suffix is None else z3.IntVal(suffix)
        return TupleRec({'y': z3.Int('pt_%s_y' % tag), 'M': z3.Int('pt_%s_M' % tag), 'd': z3.Int('pt_%s_d' % tag), 'ss': z3.Int('pt_%s_ss' % tag), 'f': f}, ORDER)
    lex_lt = lambda a, b: z3.Or(a[0] < b[0], z3.And(a[0] == b[0], z3.Or(a[1] < b[1], z3.And(a[1] == b[1], z3.Or(a[2] < b[2], z3.And(a[2] == b[2], a[3] < b[3]))))))
    four = lambda r: [r.fields[k] for k in ('y', 'M', 'd', 'ss')]
    out = []
    for with_prior in (False, True):
        start, until = dt('start'), dt('until')
        tw, ts, tu = dt('tw', W), dt('ts', S), dt('tu', U)
        t_act0 = z3.Bool('pt_t_active0')
        tr = Record({'transitionTime': tw, 'transitionTimeS': ts, 'transitionTimeU': tu, 'isActive': t_act0, '_id': 1})
        mt = Record({'startDateTime': start, 'untilDateTime': until})
        p_time = dt('pw', W)
        p_act0 = z3.Bool('pt_p_active0')
        prior = Record({'transitionTime': p_time, 'isActive': p_act0, '_id': 2}) if with_prior else None
        ok = lambda f: z3.Or(f == W, f == S, f == U)
        ex = PyExec(ZS)
        paths = ex.run('ActiveSelectorInPlace._process_transition', {'match': mt, 'transition': tr, 'prior': prior},
                       pre=[ok(start.fields['f']), ok(until.fields['f'])])
        rd = lambda f: [z3.If(f == S, ts.fields[k], z3.If(f == U, tu.fields[k], tw.fields[k])) for k in ('y', 'M', 'd', 'ss')]
        rs, ru = rd(start.fields['f']), rd(until.fields['f'])
        before = lex_lt(rs, four(start))
        at_start = z3.And([a == b for a, b in zip(rs, four(start))])
        inside = lex_lt(ru, four(until))
        pos = z3.If(before, -1, z3.If(at_start, 0, z3.If(inside, 1, 2)))
        later = lex_lt(four(p_time), four(tw)) if with_prior else z3.BoolVal(True)
        takes_over = z3.And(pos <= 0, z3.Or(z3.BoolVal(not with_prior), pos == 0, later))
        tag = 'with-prior' if with_prior else 'no-prior'
        for k, p in enumerate(paths):
            if p.outcome != 'return':
                out.append(('py:_process_transition[%s]#returns#%d' % (tag, k), p.pc, z3.BoolVal(False)))
                continue
            rv = p.value
            rid = rv.fields['_id'] if isinstance(rv, Record) else 0
            t1 = p.env['transition']
            t_act1 = as_bool(t1.fields['isActive'])
            p1 = p.env.get('prior')
            # the object bound to `prior` before the call: its flag after the call (it may have been rebound to the transition)
            if with_prior:
                pr_after = p1 if (isinstance(p1, Record) and p1.fields.get('_id') == 2) else None
                p_act1 = as_bool(pr_after.fields['isActive']) if pr_after is not None else None
            goals = [('after-the-match-is-inactive', z3.Implies(pos == 2, z3.And(z3.Not(t_act1), z3.BoolVal(rid == (2 if with_prior else 0))))),
                     ('inside-the-match-is-active', z3.Implies(pos == 1, z3.And(t_act1, z3.BoolVal(rid == (2 if with_prior else 0))))),
                     ('at-or-before-the-start-becomes-the-prior-when-it-is-the-latest', z3.Implies(takes_over, z3.And(z3.BoolVal(rid == 1), t_act1)))]
            if with_prior:
                goals.append(('an-earlier-one-changes-nothing', z3.Implies(z3.And(pos < 0, z3.Not(takes_over)),
                                                                        z3.And(z3.BoolVal(rid == 2), t_act1 == t_act0))))
            for lbl, g in goals:
                out.append(('py:_process_transition[%s]#%s#%d' % (tag, lbl, k), p.pc, g))
    return out


def era_overlap_obligations():
    """ZoneSpecifier._era_overlaps_interval <-> ExtendedZoneProcessor::eraOverlapsInterval"""
    I = z3.Int
    prev = Record({'untilYear': I('o_py'), 'untilMonth': I('o_pm'), 'untilDay': I('o_pd'), 'untilSeconds': I('o_ps')})
    era = Record({'untilYear': I('o_ey'), 'untilMonth': I('o_em'), 'untilDay': I('o_ed'), 'untilSeconds': I('o_es')})
    sym, uym = Record({'y': I('o_sy'), 'M': I('o_sm')}), Record({'y': I('o_uy'), 'M': I('o_um')})
    ex = PyExec(ZS)
    paths = ex.run('ZoneSpecifier._era_overlaps_interval', {'prev_era': prev, 'era': era, 'start_ym': sym, 'until_ym': uym},
                   pre=[I('o_pd') >= 1, I('o_ps') >= 0, I('o_ed') >= 1, I('o_es') >= 0])
    lex_lt = lambda a, b: z3.Or(a[0] < b[0], z3.And(a[0] == b[0], z3.Or(a[1] < b[1], z3.And(a[1] == b[1], z3.Or(a[2] < b[2], z3.And(a[2] == b[2], a[3] < b[3]))))))
    one, zero = z3.IntVal(1), z3.IntVal(0)
    starts_before_the_end = lex_lt((I('o_py'), I('o_pm'), I('o_pd'), I('o_ps')), (I('o_uy'), I('o_um'), one, zero))
    ends_after_the_start = lex_lt((I('o_sy'), I('o_sm'), one, zero), (I('o_ey'), I('o_em'), I('o_ed'), I('o_es')))
    out = []
    for k, p in enumerate(paths):
        out.append(('py:_era_overlaps_interval#era-starts-before-the-interval-ends-and-ends-after-it-starts#%d' % k, p.pc,
                    as_bool(p.value) == z3.And(starts_before_the_end, ends_after_the_start)))
    return out
