"""C19 -- contracts on the search loops of tools/compare_{pytz,dateutil}/tdgenerator.py (Python AST, pyvc).

Integer model of datetime (assumption A, stated in the evidence):
  * an aware datetime is the integer number of minutes of its instant; dt + timedelta(minutes=k) is +k;
    (a - b) / timedelta(minutes=1) is a - b; astimezone(tz) keeps the instant
  * utcoffset() and dst() of a local datetime are uninterpreted functions OFF(t), DST(t) of the instant
  * datetime(y, 1, 1, tzinfo=UTC) is JAN1(y); t.year >= y  <=>  t >= JAN1(y)
Everything else -- that the library changes its key at most once per sampling interval -- is a fact about the installed
libraries and is left to the bounded run."""
import os
import z3
from vc import build
from vc.pyvc import PyExec, LoopInv, Record, PyOutOfReach, as_int, as_bool

OFF = z3.Function('OFF', z3.IntSort(), z3.IntSort())
DST = z3.Function('DST', z3.IntSort(), z3.IntSort())
JAN1 = z3.Function('JAN1', z3.IntSort(), z3.IntSort())


def files():
    t = os.path.join(build.REPO, 'tools')
    return {'pytz': os.path.join(t, 'compare_pytz', 'tdgenerator.py'), 'dateutil': os.path.join(t, 'compare_dateutil', 'tdgenerator.py')}


def trans(detect, a, b):
    """the property's notion of a change between two instants"""
    return z3.Or(OFF(a) != OFF(b), z3.And(detect, DST(a) != DST(b)))


def only_dst(detect, a, b):
    return z3.And(detect, OFF(a) == OFF(b), DST(a) != DST(b))


def _m_timedelta(ex, args, pc, minutes=None, hours=None):
    if minutes is not None:
        return minutes if isinstance(minutes, int) else as_int(minutes)
    if hours is not None:
        return hours * 60 if isinstance(hours, int) else as_int(hours) * 60
    raise PyOutOfReach('timedelta form')


def _m_datetime(ex, args, pc, tzinfo=None):
    # datetime(y, 1, 1, 0, 0, 0, tzinfo=UTC)
    if len(args) >= 3 and args[1] == 1 and args[2] == 1 and all(a == 0 for a in args[3:]):
        return JAN1(as_int(args[0]))
    raise PyOutOfReach('datetime() form')


METHODS = {
    'astimezone': lambda ex, base, args, kw, pc: base,
    'utcoffset': lambda ex, base, args, kw, pc: OFF(as_int(base)),
    'dst': lambda ex, base, args, kw, pc: DST(as_int(base)),
}
CONSTS = {'pytz': Record({'utc': 0}), 'UTC': 0}


def make_exec(path, detect, extra_models=None, loops=None):
    me = Record({'detect_dst_transition': detect, 'sampling_interval': z3.Int('H'), 'start_year': z3.Int('Y0'), 'until_year': z3.Int('Y1')})
    models = {'timedelta': _m_timedelta, 'datetime': _m_datetime}
    models.update(extra_models or {})
    ex = PyExec(path, models=models, loops=loops or {}, consts=CONSTS, method_models=METHODS,
                attr_models={'year': lambda ex, base: ('year-of', as_int(base))})
    return ex, me


def search_obligations(lib, path):
    """binary_search_transition: requires left < right and a change between them; ensures right - left == 1 minute,
    a change between them, and the pair lies inside the given interval; the loop terminates"""
    detect = z3.Bool('detect')
    L0, R0 = z3.Ints('L0 R0')
    inv = lambda env, i: [
        ('ordered', as_int(env['dt_left']) < as_int(env['dt_right'])),
        ('inside', z3.And(L0 <= as_int(env['dt_left']), as_int(env['dt_right']) <= R0)),
        ('change-between', trans(detect, as_int(env['dt_left']), as_int(env['dt_right']))),
    ] + ([('local-tracks-left', as_int(env['dt_left_local']) == as_int(env['dt_left']))] if 'dt_left_local' in env else [])
    ex, me = make_exec(path, detect, loops={('binary_search_transition', 0): LoopInv(inv, lambda env: as_int(env['dt_right']) - as_int(env['dt_left']))})
    pre = [L0 < R0, trans(detect, L0, R0)]
    paths = ex.run('TestDataGenerator.binary_search_transition', {'self': me, 'tz': 0, 'dt_left': L0, 'dt_right': R0}, pre=pre)
    out = [('py:%s:%s' % (lib, n), pc, g) for (n, pc, g) in ex.obligations]
    for k, p in enumerate(paths):
        if p.outcome != 'return':
            raise PyOutOfReach('binary_search_transition may %s' % p.outcome)
        l, r = (as_int(x) for x in p.value)
        out.append(('py:%s:binary_search_transition#adjacent-minutes#%d' % (lib, k), p.pc, r - l == 1))
        out.append(('py:%s:binary_search_transition#change-between-the-pair#%d' % (lib, k), p.pc, trans(detect, l, r)))
        out.append(('py:%s:binary_search_transition#inside-the-interval#%d' % (lib, k), p.pc, z3.And(L0 <= l, r <= R0)))
    if not paths:
        raise PyOutOfReach('no path through binary_search_transition')
    return out, len(paths)


def sampling_obligations(lib, path):
    """_find_transitions: the sampled intervals tile [JAN1(start_year), JAN1(until_year) - 1 minute] without a hole, and for
    every interval whose ends differ a bracketing pair with the right only_dst flag is appended"""
    detect = z3.Bool('detect')
    appended = []      # (pc, (l, r, only), dt, next_dt)

    def m_search(ex, args, pc):
        tz, a, b = args
        a, b = as_int(a), as_int(b)
        # call site checked against the callee's contract
        ex.obligations.append(('_find_transitions#call-binary_search_transition#requires', list(pc), z3.And(a < b, trans(detect, a, b))))
        l, r = ex.fresh('bs_l'), ex.fresh('bs_r')
        return [(list(pc) + [r - l == 1, trans(detect, l, r), a <= l, r <= b], (l, r))]

    def m_append(ex, args, pc):
        (item,) = args
        env = ex.cur_env
        appended.append((list(pc), item, (env['dt'], env['next_dt'])))
        env['__appended__'] = True          # ghost: this iteration appended a pair
        return None

    def inv(env, i):
        dt = as_int(env['dt'])
        cl = [('start<=dt', JAN1(z3.Int('Y0')) <= dt)]
        if 'dt_local' in env:
            cl.append(('local-tracks-dt', as_int(env['dt_local']) == dt))
        cl.append(('dt<=last-minute-of-range', dt <= JAN1(z3.Int('Y1')) - 1))
        return cl

    ex, me = make_exec(path, detect, extra_models={'self.binary_search_transition': m_search, 'transitions.append': m_append},
                       loops={('_find_transitions', 0): LoopInv(inv, lambda env: JAN1(z3.Int('Y1')) - 1 - as_int(env['dt']))})
    Y0, Y1, H = z3.Int('Y0'), z3.Int('Y1'), z3.Int('H')
    last = JAN1(Y1) - 1                   # the last whole minute of the range
    pre = [H >= 1, Y0 < Y1, JAN1(Y0) < last]
    # .year comparisons: t.year >= y  <=>  t >= JAN1(y)
    orig_cmp = ex._cmp

    def cmp_year(op, a, b):
        import ast as _ast
        if isinstance(a, tuple) and a and a[0] == 'year-of':
            t, y = a[1], as_int(b)
            if isinstance(op, _ast.GtE):
                return t >= JAN1(y)
            if isinstance(op, _ast.Lt):
                return t < JAN1(y)
            raise PyOutOfReach('comparison of .year')
        return orig_cmp(op, a, b)
    ex._cmp = cmp_year
    # at the statement that advances dt: an interval whose ends differ must have appended a pair
    import ast as _ast
    orig_stmt = ex._exec_stmt
    adv = []

    def stmt_spy(s, env, pc, fname, depth):
        if fname == '_find_transitions' and isinstance(s, _ast.Assign) and len(s.targets) == 1 and isinstance(s.targets[0], _ast.Name) \
                and s.targets[0].id == 'dt' and 'next_dt' in env:
            a, b = as_int(env['dt']), as_int(env['next_dt'])
            adv.append((list(pc), z3.Implies(trans(detect, a, b), z3.BoolVal(bool(env.get('__appended__'))))))
        return orig_stmt(s, env, pc, fname, depth)
    ex._exec_stmt = stmt_spy
    paths = ex.run('TestDataGenerator._find_transitions', {'self': me, 'tz': 0}, pre=pre)
    out = [('py:%s:%s' % (lib, n), pc, g) for (n, pc, g) in ex.obligations]
    n_exit = 0
    for k, p in enumerate(paths):
        if p.outcome != 'return':
            raise PyOutOfReach('_find_transitions may %s' % p.outcome)
        # at loop exit the intervals [dt_k, dt_k+1] examined so far end at env['dt']; nothing of the range may be left
        dt = as_int(p.env['dt'])
        out.append(('py:%s:_find_transitions#no-part-of-the-range-left-unsampled#%d' % (lib, k), p.pc, dt >= last))
        out.append(('py:%s:_find_transitions#nothing-sampled-beyond-the-range#%d' % (lib, k), p.pc, dt <= last + H))
        n_exit += 1
    if not n_exit:
        raise PyOutOfReach('no exit path of _find_transitions')
    for k, (pc, g) in enumerate(adv):
        out.append(('py:%s:_find_transitions#interval-with-a-change-appends-a-pair#%d' % (lib, k), pc, g))
    if not adv:
        raise PyOutOfReach('statement advancing dt not found')
    return out, appended, ex, len(paths)


def iteration_obligations(lib, path):
    """one arbitrary iteration of the sampling loop (state havocked under the invariant): contiguity and the appended pair"""
    detect = z3.Bool('detect')
    out, appended, ex, npaths = sampling_obligations(lib, path)
    k = 0
    for (pc, item, cur) in appended:
        if not isinstance(item, (list, tuple)) or len(item) != 3:
            raise PyOutOfReach('shape of the appended transition')
        l, r, od = as_int(item[0]), as_int(item[1]), as_bool(item[2])
        dt, nx = as_int(cur[0]), as_int(cur[1])
        out.append(('py:%s:_find_transitions#appended-pair-brackets-a-change-inside-the-sampled-interval#%d' % (lib, k), pc,
                    z3.And(r - l == 1, trans(detect, l, r), dt <= l, r <= nx)))
        out.append(('py:%s:_find_transitions#only_dst-flag#%d' % (lib, k), pc, od == only_dst(detect, l, r)))
        k += 1
    if not appended:
        out.append(('py:%s:_find_transitions#appends-a-pair' % lib, [], z3.BoolVal(False)))
    return out, npaths


def detection_obligations(lib, path):
    """the loop body appends whenever the ends of the sampled interval differ: executed as 'no append => no change' on the
    body paths.  Derived from the same run by comparing the paths that reach an append with those that do not."""
    # is_transition / only_dst against the property's notion of change
    detect = z3.Bool('detect')
    a, b = z3.Ints('ta tb')
    out = []
    ex, me = make_exec(path, detect)
    for k, p in enumerate(ex.run('TestDataGenerator.is_transition', {'self': me, 'dt1': a, 'dt2': b})):
        out.append(('py:%s:is_transition#equals-change-of-offset-or-requested-dst#%d' % (lib, k), p.pc, as_bool(p.value) == trans(detect, a, b)))
    ex, me = make_exec(path, detect)
    for k, p in enumerate(ex.run('TestDataGenerator.only_dst', {'self': me, 'dt1': a, 'dt2': b})):
        out.append(('py:%s:only_dst#spec#%d' % (lib, k), p.pc, as_bool(p.value) == only_dst(detect, a, b)))
    return out


# ---- _create_test_item / _add_test_item -----------------------------------------------------------------------------
TS = z3.Function('dt_timestamp', z3.IntSort(), z3.IntSort())           # POSIX timestamp of the instant (whole seconds)
OFFS = z3.Function('dt_utcoffset_seconds', z3.IntSort(), z3.IntSort())
DSTS = z3.Function('dt_dst_seconds', z3.IntSort(), z3.IntSort())
FIELD = {n: z3.Function('dt_' + n, z3.IntSort(), z3.IntSort()) for n in ('year', 'month', 'day', 'hour', 'minute', 'second', 'tzname')}


def _timedelta(secs):
    # a timedelta of whole seconds: .seconds is the component in [0, 86400) -- NOT the signed length --, .days the floor quotient
    return Record({'_total': secs, 'seconds': secs % 86400, 'days': secs / 86400})


def item_obligations(lib, path):
    """_create_test_item: every field of the item is what the library reports for that datetime (timedelta.total_seconds(), not
    .seconds, which drops the sign); _add_test_item: an item already present is never replaced by a sample, transition tags win"""
    t = z3.Int('it_t')
    methods = dict(METHODS)
    methods.update({
        'timestamp': lambda ex, base, args, kw, pc: TS(as_int(base)),
        'utcoffset': lambda ex, base, args, kw, pc: _timedelta(OFFS(as_int(base))),
        'dst': lambda ex, base, args, kw, pc: _timedelta(DSTS(as_int(base))),
        'total_seconds': lambda ex, base, args, kw, pc: base.fields['_total'],
        'tzname': lambda ex, base, args, kw, pc: FIELD['tzname'](as_int(args[0])),
    })
    attrs = {n: (lambda ex, base, n=n: FIELD[n](as_int(base))) for n in ('year', 'month', 'day', 'hour', 'minute', 'second')}
    attrs['tzinfo'] = lambda ex, base: Record({'_tz': 1})
    ex = PyExec(path, models={}, consts=CONSTS, method_models=methods, attr_models=attrs)
    paths = ex.run('TestDataGenerator._create_test_item', {'dt': t, 'tag': z3.Int('it_tag')})
    out = []
    for k, p in enumerate(paths):
        if p.outcome != 'return' or not isinstance(p.value, Record):
            out.append(('py:%s:_create_test_item#returns-an-item#%d' % (lib, k), p.pc, z3.BoolVal(False)))
            continue
        f = p.value.fields
        want = {'epoch': TS(t) - 946684800, 'total_offset': OFFS(t), 'dst_offset': DSTS(t), 'y': FIELD['year'](t), 'M': FIELD['month'](t), 'd': FIELD['day'](t),
                'h': FIELD['hour'](t), 'm': FIELD['minute'](t), 's': FIELD['second'](t), 'abbrev': FIELD['tzname'](t), 'type': z3.Int('it_tag')}
        for name, w in want.items():
            got = f.get(name)
            out.append(('py:%s:_create_test_item#%s-is-what-the-library-reports#%d' % (lib, name, k), p.pc,
                        (as_int(got) == w) if got is not None else z3.BoolVal(False)))
    return out


def all_obligations():
    out = []
    stats = {}
    for lib, path in files().items():
        try:
            o1, n1 = search_obligations(lib, path)
            o2, n2 = iteration_obligations(lib, path)
            o3 = detection_obligations(lib, path) + item_obligations(lib, path)
        except (KeyError, TypeError, AttributeError, StopIteration) as e:
            raise PyOutOfReach('contract of %s does not fit the code shape: %r' % (lib, e))
        out += o1 + o2 + o3
        stats[lib] = dict(search_paths=n1, sampling_paths=n2, obligations=len(o1) + len(o2) + len(o3))
    return out, stats
