"""Contract registry helpers."""
import z3
from vc.symex import Contract, LoopSpec, Ptr, BV

REG = {}
LEMMAS = {}   # property id -> list of lemma generator functions


def contract(name, **kw):
    c = Contract(name, **kw)
    REG[name] = c
    return c


def lemma(prop):
    def deco(f):
        LEMMAS.setdefault(prop, []).append(f)
        return f
    return deco


INT32_MIN = -(1 << 31)


def bv32(v):
    return z3.BitVecVal(v, 32)


def sx(v, bits=32):
    return z3.SignExt(bits - v.size(), v) if v.size() < bits else v


def zx(v, bits=32):
    return z3.ZeroExt(bits - v.size(), v) if v.size() < bits else v


def byte(v, k):
    return z3.Extract(8 * k + 7, 8 * k, v)


def disjoint(ex, p1, n1, p2, n2):
    if p1.obj is not None and p2.obj is not None and p1.obj is not p2.obj:
        return z3.BoolVal(True)
    k1 = p1.obj.kind if p1.obj is not None else None
    k2 = p2.obj.kind if p2.obj is not None else None
    if (k1 == 'alloca') != (k2 == 'alloca'):
        return z3.BoolVal(True)      # a local of the caller cannot overlap memory the caller was handed from outside
    a = ex.ptr_to_bv(p1)
    b = ex.ptr_to_bv(p2)
    w = a.size()
    return z3.Or(z3.ULE(a + BV(n1, w), b), z3.ULE(b + BV(n2, w), a))


class LemmaOb:
    """A lemma over contracts: assumptions /\\ not goal must be unsat."""
    def __init__(self, name, assumptions, goal, timeout=None, cases=None, abstract=None, logic=None):
        self.name = name
        self.assumptions = assumptions
        self.goal = goal
        self.timeout = timeout
        self.logic = logic
        self.cases = cases          # list of (label, cond): one obligation per case + a cover obligation
        self.abstract = abstract    # list of (term, fresh const): generalise a shared subterm before solving


def instantiate(ex, name, args, mem_old=None, mem_new=None, result=None, labelled=False):
    """(requires, ensures) of a registered contract on caller-chosen symbolic values."""
    from vc.symex import MemView, Ctx
    c = REG[name]
    if mem_old is None:
        mem_old = z3.Const('lm_mem', ex.mem_sort)
    old = MemView(ex, {}, mem_old)
    new = MemView(ex, {}, mem_new if mem_new is not None else mem_old)
    fn = ex.lookup_fn(name)
    cx = Ctx(ex, fn, args, old, new=new, result=result)
    cx.fn_params = fn.params
    cx.ghost = {}
    cx.log = []
    pre = list(c.requires(cx))
    if labelled:
        return pre, list(c.ensures(cx))
    post = [e for _, e in c.ensures(cx)]
    return pre, post


def obj_at(ex, mem, addr, value_bv):
    """memory with the bytes of a by-value object written at addr (little endian)."""
    n = value_bv.size() // 8
    for k in range(n):
        mem = z3.Store(mem, addr + z3.BitVecVal(k, ex.pbits), z3.Extract(8 * k + 7, 8 * k, value_bv))
    return mem


def U(x):
    """unsigned integer value of a bit-vector term (for specs over unbounded ghost quantities)"""
    return z3.BV2Int(x, False)


def S(x):
    """signed integer value of a bit-vector term"""
    return z3.BV2Int(x, True)


def valid_ptr(ex, p, n):
    """a pointer argument designates n accessible bytes: non-null and not wrapping around the address space"""
    a = ex.ptr_to_bv(p)
    if p.obj is not None:
        return z3.BoolVal(True)
    return z3.And(a != 0, z3.ULE(a, z3.BitVecVal((1 << a.size()) - 1 - n - 64, a.size())))
