"""C10 -- zone lookup by name, id and index (ZoneRegistrar, ZoneManagerImpl)."""
import z3
from .reg import contract, lemma, bv32, sx, zx, byte, LemmaOb, instantiate
from vc.symex import LoopSpec, Ptr, BV

I16 = z3.BitVecSort(16)
P64 = z3.BitVecSort(64)
_UF = {}


def _uf(name, *sorts):
    k = (name,) + tuple(str(x) for x in sorts)
    if k not in _UF:
        _UF[k] = z3.Function(name if sorts[0] == P64 else '%s_p%d' % (name, sorts[0].size()), *sorts)
    return _UF[k]

# order-embedding of NUL-terminated strings (by their first byte's address) into the integers:
# ASSUMED semantics of strcmp / strcmp_P / strcmp_PP (external libc), strings not modified during a lookup
def KEY(p):
    return _uf('strkey', p.sort(), z3.IntSort())(p)

# definitional ghost views of a registry (functions of the registry pointer and the index)
def G(reg, i):           # G(reg,i)   := strkey(name pointer of entry i)
    return _uf('reg_namekey', reg.sort(), I16, z3.IntSort())(reg, i)

def IDG(reg, i):         # IDG(reg,i) := zoneId field of entry i
    return _uf('reg_zoneid', reg.sort(), I16, z3.BitVecSort(32))(reg, i)

def ZIG(reg, i):         # ZIG(reg,i) := registry[i]
    return _uf('reg_zoneinfo', reg.sort(), I16, reg.sort())(reg, i)


INVALID = z3.BitVecVal(0xffff, 16)


def _strcmp_model(ex, st, c):
    a, b = ex.ptr_to_bv(c.args[0]), ex.ptr_to_bv(c.args[1])
    r = ex.fresh('strcmp', 16 if ex.pbits == 16 else 32)      # the width of int on the target
    st.pc.append(z3.And((r == 0) == (KEY(a) == KEY(b)), (r < 0) == (KEY(a) < KEY(b)), r >= -255, r <= 255,
                        # 7-bit ASCII zone names: the difference of the first differing bytes fits int8_t
                        r >= -127, r <= 127))
    return r


for nm in ('strcmp_P(char const*, char const*)', 'ace_common::strcmp_PP(char const*, char const*)', 'strcmp'):
    contract(nm, extern=True, model=_strcmp_model,
             note='ASSUMED: strcmp semantics via an order-embedding strkey; |result| <= 127 (7-bit ASCII names)')


def variants():
    for ns, cache, mgr in (('basic', 'Basic', 'Basic'), ('extended', 'Extended', 'Extended')):
        zr = ('ace_time::ZoneRegistrar<ace_time::%s::ZoneInfo, ace_time::%s::ZoneRegistryBroker, '
              'ace_time::%s::ZoneInfoBroker, &(strcmp_P(char const*, char const*)), &ace_common::strcmp_PP>' % (ns, ns, ns))
        yield ns, zr


def monotone(reg, size):
    i, j = z3.BitVecs('qi qj', 16)
    return z3.ForAll([i, j], z3.Implies(z3.And(z3.ULE(i, j), z3.ULT(j, size)), G(reg, i) <= G(reg, j)),
                     patterns=[z3.MultiPattern(G(reg, i), G(reg, j))])


def absent(reg, size, kq, upto=None):
    j = z3.BitVec('qk', 16)
    return z3.ForAll([j], z3.Implies(z3.ULT(j, upto if upto is not None else size), G(reg, j) != kq), patterns=[G(reg, j)])


def id_absent(reg, upto, zid):
    j = z3.BitVec('qk', 16)
    return z3.ForAll([j], z3.Implies(z3.ULT(j, upto), IDG(reg, j) != zid), patterns=[IDG(reg, j)])


def _make(ns, ZR):
    ZI = 'ace_time::%s::ZoneInfo' % ns
    ZRB = 'ace_time::%s::ZoneRegistryBroker' % ns

    def _zoneinfo_pre(c):
        # the ghost size is set by the lookup under verification; verified on its own, the accessor gets an arbitrary size
        if 'registry_size' not in c.ghost:
            c.ghost['registry_size'] = z3.BitVec('ghost_registry_size', 16)
        return [z3.ULT(c.args[1], c.ghost['registry_size'])]

    def _zoneinfo_post(c, ZI=ZI, ZRB=ZRB):
        reg = c.old.field(c.this, ZRB, 'mZoneRegistry')
        i = c.args[1]
        r = c.ex.ptr_to_bv(c.result)
        real = c.old.load(Ptr(None, reg + (reg.size() // 8) * zx(i, reg.size())), reg.size() // 8)
        return [('real-read', r == real)]

    def _zoneinfo_defs(c, ZI=ZI, ZRB=ZRB):
        reg = c.old.field(c.this, ZRB, 'mZoneRegistry')
        i = c.args[1]
        r = c.old.load(Ptr(None, reg + (reg.size() // 8) * zx(i, reg.size())), reg.size() // 8)
        name_off, _ = c.mod.field(ZI, 'name')
        id_off, _ = c.mod.field(ZI, 'zoneId')
        # instances of the DEFINITIONS of the ghost registry views at the index touched
        return [('def-ZIG', r == ZIG(reg, i)),
                ('def-G', KEY(c.old.load(Ptr(None, r + name_off), reg.size() // 8)) == G(reg, i)),
                ('def-IDG', c.old.load(Ptr(None, r + id_off), 4) == IDG(reg, i))]

    # touching entry i is allowed only for i < registry size (ghost): "touches only registry entries"
    contract('%s::zoneInfo(unsigned short) const' % ZRB, pure=True, props=['C10'], requires=_zoneinfo_pre, ensures=_zoneinfo_post, defs=_zoneinfo_defs,
             note='defs: instances of the definitions of the ghost registry views (conservative extension), assumed at call sites only')

    sig_n = '(%s const* const*, unsigned short, char const*)' % ZI
    sig_i = '(%s const* const*, unsigned short, unsigned int)' % ZI
    sig_s = '(%s const* const*, unsigned short)' % ZI

    def _set_ghost(c, size):
        c.ghost['registry_size'] = size

    # ---- isSorted ----
    def _sorted_pre(c):
        _set_ghost(c, c.args[1])
        return []

    def _sorted_post(c):
        reg, size = c.ex.ptr_to_bv(c.args[0]), c.args[1]
        i = z3.BitVec('qi', 16)
        unsorted_pair = z3.Exists([i], z3.And(z3.ULT(i + 1, size), z3.ULT(i, i + 1), G(reg, i) > G(reg, i + 1)))
        return [('true-implies-monotone', z3.Implies(c.result == 1, z3.And(size != 0, monotone(reg, size)))),
                ('false-only-if-empty-or-unsorted', z3.Implies(c.result == 0, z3.Or(size == 0, unsorted_pair)))]

    def _sorted_inv(L):
        reg, size = L.ex.ptr_to_bv(L.c.args[0]), L.c.args[1]
        i = L.var('i')
        prev = L.ex.ptr_to_bv(L.ptr('prevName'))
        return [('bounds', z3.And(z3.UGE(i, 1), z3.ULE(i, size))),
                ('prev-is-entry-before', KEY(prev) == G(reg, i - 1)),
                ('prefix-monotone', monotone(reg, i))]

    contract(ZR + '::isSorted' + sig_s, pure=True, props=['C10'], requires=_sorted_pre, ensures=_sorted_post,
             loops={0: LoopSpec(_sorted_inv, variant=lambda L: L.c.args[1] - L.var('i'))})

    # ---- linearSearchByName ----
    def _lin_pre(c):
        _set_ghost(c, c.args[1])
        return []

    def _lin_post(c):
        reg, size, kq = c.ex.ptr_to_bv(c.args[0]), c.args[1], KEY(c.ex.ptr_to_bv(c.args[2]))
        r = c.result
        return [('found-is-exact-and-first', z3.Implies(r != INVALID, z3.And(z3.ULT(r, size), G(reg, r) == kq, absent(reg, size, kq, upto=r)))),
                ('not-found-means-absent', z3.Implies(r == INVALID, absent(reg, size, kq)))]

    def _lin_inv(L):
        reg, size, kq = L.ex.ptr_to_bv(L.c.args[0]), L.c.args[1], KEY(L.ex.ptr_to_bv(L.c.args[2]))
        i = L.var('i')
        return [('bounds', z3.ULE(i, size)), ('none-before', absent(reg, size, kq, upto=i))]

    contract(ZR + '::linearSearchByName' + sig_n, pure=True, props=['C10'], requires=_lin_pre, ensures=_lin_post,
             loops={0: LoopSpec(_lin_inv, variant=lambda L: L.c.args[1] - L.var('i'))})

    # ---- binarySearchByName ----
    def _bin_pre(c):
        _set_ghost(c, c.args[1])
        reg, size = c.ex.ptr_to_bv(c.args[0]), c.args[1]
        return [size != 0, monotone(reg, size)]

    def _bin_post(c):
        reg, size, kq = c.ex.ptr_to_bv(c.args[0]), c.args[1], KEY(c.ex.ptr_to_bv(c.args[2]))
        r = c.result
        return [('found-is-exact', z3.Implies(r != INVALID, z3.And(z3.ULT(r, size), G(reg, r) == kq))),
                ('not-found-means-absent', z3.Implies(r == INVALID, absent(reg, size, kq)))]

    def _bin_inv(L):
        reg, size, kq = L.ex.ptr_to_bv(L.c.args[0]), L.c.args[1], KEY(L.ex.ptr_to_bv(L.c.args[2]))
        a, b = L.var('a'), L.var('b')
        j = z3.BitVec('qk', 16)
        window = z3.ForAll([j], z3.Implies(z3.And(z3.ULT(j, size), G(reg, j) == kq), z3.And(z3.ULE(a, j), z3.ULT(j, b))),
                           patterns=[G(reg, j)])
        return [('bounds', z3.And(z3.ULE(a, b), z3.ULE(b, size))), ('match-only-in-window', window)]

    contract(ZR + '::binarySearchByName' + sig_n, pure=True, props=['C10'], requires=_bin_pre, ensures=_bin_post,
             loops={0: LoopSpec(_bin_inv, variant=lambda L: L.var('b') - L.var('a'))})

    # ---- linearSearchById ----
    def _id_post(c):
        reg, size, zid = c.ex.ptr_to_bv(c.args[0]), c.args[1], c.args[2]
        r = c.result
        return [('found-is-exact-and-first', z3.Implies(r != INVALID, z3.And(z3.ULT(r, size), IDG(reg, r) == zid, id_absent(reg, r, zid)))),
                ('not-found-means-absent', z3.Implies(r == INVALID, id_absent(reg, size, zid)))]

    def _id_inv(L):
        reg, size, zid = L.ex.ptr_to_bv(L.c.args[0]), L.c.args[1], L.c.args[2]
        i = L.var('i')
        return [('bounds', z3.ULE(i, size)), ('none-before', id_absent(reg, i, zid))]

    contract(ZR + '::linearSearchById' + sig_i, pure=True, props=['C10', 'C16'], requires=_lin_pre, ensures=_id_post,
             loops={0: LoopSpec(_id_inv, variant=lambda L: L.c.args[1] - L.var('i'))})

    # ---- the registrar object ----
    def _rfields(view, this, ZR=ZR):
        return (view.field(this, ZR, 'mRegistrySize'), view.field(this, ZR, 'mZoneRegistry'), view.field(this, ZR, 'mIsSorted'))

    def _class_inv(view, this):
        size, reg, srt = _rfields(view, this)
        return [z3.ULE(srt, 1), z3.Implies(srt == 1, z3.And(size != 0, monotone(reg, size)))]

    def _ctor_post(c):
        size, reg, srt = _rfields(c.new, c.this)
        return [('fields', z3.And(size == c.args[1], reg == c.ex.ptr_to_bv(c.args[2]))),
                ('class-invariant', z3.And(*_class_inv(c.new, c.this)))]

    def _ctor_pre(c):
        _set_ghost(c, c.args[1])
        return []

    contract(ZR + '::ZoneRegistrar(unsigned short, %s const* const*)' % ZI, props=['C10'], requires=_ctor_pre, ensures=_ctor_post,
             assigns=lambda c, ZR=ZR: [(c.this, c.ex.class_size('ace_time::ZoneRegistrar'))])

    def _method_pre(c):
        size, reg, srt = _rfields(c.old, c.this)
        _set_ghost(c, size)
        return _class_inv(c.old, c.this)

    def _find_name_post(c):
        size, reg, srt = _rfields(c.old, c.this)
        kq = KEY(c.ex.ptr_to_bv(c.args[1]))
        r = c.result
        return [('found-is-exact', z3.Implies(r != INVALID, z3.And(z3.ULT(r, size), G(reg, r) == kq))),
                ('not-found-means-absent', z3.Implies(r == INVALID, absent(reg, size, kq)))]

    contract(ZR + '::findIndexForName(char const*) const', pure=True, props=['C10'], requires=_method_pre, ensures=_find_name_post)

    def _find_id_post(c):
        size, reg, srt = _rfields(c.old, c.this)
        zid = c.args[1]
        r = c.result
        return [('found-is-exact-and-first', z3.Implies(r != INVALID, z3.And(z3.ULT(r, size), IDG(reg, r) == zid, id_absent(reg, r, zid)))),
                ('not-found-means-absent', z3.Implies(r == INVALID, id_absent(reg, size, zid)))]

    contract(ZR + '::findIndexForId(unsigned int) const', pure=True, props=['C10', 'C16'], requires=_method_pre, ensures=_find_id_post)

    def _zi_name_post(c):
        size, reg, srt = _rfields(c.old, c.this)
        kq = KEY(c.ex.ptr_to_bv(c.args[1]))
        r = c.ex.ptr_to_bv(c.result)
        j = z3.BitVec('qr', 16)
        return [('null-iff-absent', z3.Implies(r == 0, absent(reg, size, kq))),
                ('entry-with-that-name', z3.Implies(r != 0, z3.Exists([j], z3.And(z3.ULT(j, size), r == ZIG(reg, j), G(reg, j) == kq))))]

    def _nonnull_entries(c):
        size, reg, srt = _rfields(c.old, c.this)
        j = z3.BitVec('qn', 16)
        return [z3.ForAll([j], z3.Implies(z3.ULT(j, size), ZIG(reg, j) != 0), patterns=[ZIG(reg, j)])]

    contract(ZR + '::getZoneInfoForName(char const*) const', pure=True, props=['C10'],
             requires=lambda c: _method_pre(c) + _nonnull_entries(c), ensures=_zi_name_post)

    def _zi_id_post(c):
        size, reg, srt = _rfields(c.old, c.this)
        zid = c.args[1]
        r = c.ex.ptr_to_bv(c.result)
        j = z3.BitVec('qr', 16)
        return [('null-iff-absent', z3.Implies(r == 0, id_absent(reg, size, zid))),
                ('first-entry-with-that-id', z3.Implies(r != 0, z3.Exists([j], z3.And(z3.ULT(j, size), r == ZIG(reg, j), IDG(reg, j) == zid, id_absent(reg, j, zid)))))]

    contract(ZR + '::getZoneInfoForId(unsigned int) const', pure=True, props=['C10', 'C16'],
             requires=lambda c: _method_pre(c) + _nonnull_entries(c), ensures=_zi_id_post)

    def _zi_index_post(c):
        size, reg, srt = _rfields(c.old, c.this)
        i = c.args[1]
        r = c.ex.ptr_to_bv(c.result)
        return [('in-range-gives-entry', z3.Implies(z3.ULT(i, size), r == ZIG(reg, i))),
                ('out-of-range-gives-null', z3.Implies(z3.UGE(i, size), r == 0))]

    contract(ZR + '::getZoneInfoForIndex(unsigned short) const', pure=True, props=['C10'],
             requires=_method_pre, ensures=_zi_index_post)


for _ns, _ZR in variants():
    _make(_ns, _ZR)
