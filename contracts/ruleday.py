"""C18 -- rule day resolution (lastSun, Sun>=8, Fri<=1): C++ == Python == calendar."""
import ast
import os
import z3
from .reg import contract, lemma, bv32, sx, zx, byte, LemmaOb
from . import spec
from vc import build

CALC = 'ace_time::BasicZoneProcessor::calcStartDayOfMonth(short, unsigned char, unsigned char, signed char)'


def calendar_answer(y, m, dow, dom, rm, rd):
    """(rm, rd) is the calendar's answer for the expression (dow, dom) in month m of year y.
    Generic over Int / 32-bit bit-vector terms.  Semantic characterisation (no formula for the shift):
      dom > 0 : the first day on or after y-m-dom whose ISO weekday is dow (may spill into the next month)
      dom < 0 : the last day on or before y-m-|dom| with that weekday (may spill into the previous month)
      dom == 0: the last such weekday of month m"""
    K = lambda v: spec.K(y, v)
    R = spec.days_from_civil(y, rm, rd)
    wd = spec.iso_weekday(R)
    L_pos = spec.days_from_civil(y, m, dom)
    L_neg = spec.days_from_civil(y, m, -dom)
    last = spec.days_from_civil(y, m, spec.days_in_month(y, m))
    valid = spec.valid_ymd(y, rm, rd)
    return z3.And(valid, wd == dow,
                  z3.Implies(dom > K(0), z3.And(L_pos <= R, R < L_pos + K(7))),
                  z3.Implies(dom < K(0), z3.And(L_neg - K(7) < R, R <= L_neg)),
                  z3.Implies(dom == K(0), z3.And(rm == m, last - K(7) < R, R <= last)))


def domain(y, m, dow, dom):
    K = lambda v: spec.K(y, v)
    mag = z3.If(dom < K(0), -dom, dom)
    return z3.And(y >= K(1873), y <= K(2126), m >= K(1), m <= K(12), dow >= K(1), dow <= K(7),
                  dom >= K(-31), dom <= K(31), z3.Implies(dom != K(0), mag <= spec.days_in_month(y, m)))


def no_year_spill(m, dom):
    """what the compiler must reject: an expression whose resolution can leave the year"""
    K = lambda v: spec.K(m, v)
    return z3.Not(z3.Or(z3.And(m == K(12), dom >= K(26)),
                        z3.And(m == K(1), dom < K(0), dom >= K(-7))))


def _calc_pre(c):
    y, m, dow, dom = (sx(c.args[0]), zx(c.args[1]), zx(c.args[2]), sx(c.args[3]))
    return [domain(y, m, dow, dom), no_year_spill(m, dom)]


def _calc_post(c):
    y, m, dow, dom = (sx(c.args[0]), zx(c.args[1]), zx(c.args[2]), sx(c.args[3]))
    rm, rd = zx(byte(c.result, 0)), zx(byte(c.result, 1))
    return [('calendar-answer', calendar_answer(y, m, dow, dom, rm, rd)),
            ('month-in-range', z3.And(rm >= 1, rm <= 12))]


def _calc_cases(c):
    m, dom = zx(c.args[1]), sx(c.args[3])
    cs = []
    for k in range(1, 13):
        cs.append(('m%d-ge' % k, z3.And(m == k, dom > 0)))
        cs.append(('m%d-le' % k, z3.And(m == k, dom < 0)))
        cs.append(('m%d-last' % k, z3.And(m == k, dom == 0)))
    return cs


contract(CALC, pure=True, props=['C18'], requires=_calc_pre, ensures=_calc_post, cases=_calc_cases)

# exact-match form (onDayOfWeek == 0): returns the inputs
contract(CALC + '#exact', pure=True)   # placeholder name, not a function: removed below
from .reg import REG  # noqa: E402
del REG[CALC + '#exact']


def _calc_exact_post(c):
    return [('exact', z3.Implies(c.args[2] == 0, z3.And(byte(c.result, 0) == c.args[1], byte(c.result, 1) == c.args[3])))]


# ---- the Python side ---------------------------------------------------------------------------------

TRANSFORMER = os.path.join(build.REPO, 'tools', 'tzdb', 'transformer.py')


class DateObj:
    def __init__(self, y, m, d):
        self.y, self.m, self.d = y, m, d


def date_model(ex, args, pc):
    """ASSUMED contract of datetime.date(y, m, d): raises ValueError unless the date is valid;
    .isoweekday() == iso_weekday(days_from_civil(y, m, d))"""
    from vc.pyvc import as_int
    y, m, d = (as_int(a) for a in args)
    ex.obligations.append(('calc_day_of_month#datetime.date-valid', list(pc), z3.And(y >= 1, y <= 9999, spec.valid_ymd(y, m, d))))
    return DateObj(y, m, d)


def admitted_by_filter():
    """The rejection tests of Transformer._create_rules_with_on_day_expansion, located in the real source by their
    reason strings and evaluated symbolically.  Returns f(dow, dom, month) -> z3 Bool 'admitted'."""
    from vc.pyvc import PyExec, Record, as_bool
    src = open(TRANSFORMER).read()
    tree = ast.parse(src)
    fn = None
    for n in ast.walk(tree):
        if isinstance(n, ast.FunctionDef) and n.name == '_create_rules_with_on_day_expansion':
            fn = n
    if fn is None:
        raise KeyError('_create_rules_with_on_day_expansion not found')
    tests = []   # (guard chain, test) for every If whose body reports "cannot shift"

    def walk(node, guards):
        for ch in ast.iter_child_nodes(node):
            if isinstance(ch, ast.If):
                body_src = ''.join(ast.unparse(b) for b in ch.body)
                if 'cannot shift' in body_src and not any(isinstance(b, ast.If) and 'cannot shift' in ast.unparse(b) for b in ch.body):
                    tests.append((list(guards), ch.test))
                else:
                    walk_list(ch.body, guards + [ch.test])
                    walk_list(ch.orelse, guards)
            else:
                walk(ch, guards)

    def walk_list(lst, guards):
        for x in lst:
            if isinstance(x, ast.If):
                body_src = ''.join(ast.unparse(b) for b in x.body)
                if 'cannot shift' in body_src and not any(isinstance(b, ast.If) and 'cannot shift' in ast.unparse(b) for b in x.body):
                    tests.append((list(guards), x.test))
                else:
                    walk_list(x.body, guards + [x.test])
                    walk_list(x.orelse, guards)
            else:
                walk(x, guards)

    walk_list(fn.body, [])
    if len(tests) < 2:
        raise KeyError('year-spill rejection tests not found (found %d)' % len(tests))

    def admitted(dow, dom, month):
        ex = PyExec(TRANSFORMER)
        env = {'on_day_of_week': dow, 'on_day_of_month': dom, 'rule': Record({'inMonth': month})}
        rej = []
        for guards, test in tests:
            conds = []
            for g in guards:
                # only guards over the three tracked quantities are kept (others concern strings / loop state)
                names = {n.id for n in ast.walk(g) if isinstance(n, ast.Name)}
                if names <= set(env):
                    vals = ex._eval(g, env, [], 'filter', 0)
                    conds.append(z3.Or([z3.And(p + [as_bool(v)]) if p else as_bool(v) for p, v in vals]))
            vals = ex._eval(test, env, [], 'filter', 0)
            conds.append(z3.Or([z3.And(p + [as_bool(v)]) if p else as_bool(v) for p, v in vals]))
            rej.append(z3.And(conds))
        return z3.Not(z3.Or(rej))
    return admitted, [ast.unparse(t) for _, t in tests]


def python_obligations():
    """Obligations for transformer.calc_day_of_month against the same calendar characterisation (Int sort),
    the admission filter obligation, and the uniqueness lemma that makes C++ == Python follow."""
    from vc.pyvc import PyExec
    out = []
    y, m, dow, dom = z3.Ints('py_year py_month py_dow py_dom')
    admitted, tests = admitted_by_filter()
    ex = PyExec(TRANSFORMER, models={'datetime.date': date_model})

    def iso_model(exx, args, pc):
        raise NotImplementedError
    # method call on the date object
    orig_call = ex._call

    def call(e, env, pc, fname, depth):
        if isinstance(e.func, ast.Attribute) and e.func.attr == 'isoweekday' and isinstance(e.func.value, ast.Name):
            o = env.get(e.func.value.id)
            if isinstance(o, DateObj):
                return [(pc, spec.iso_weekday(spec.days_from_civil(o.y, o.m, o.d)))]
        return orig_call(e, env, pc, fname, depth)
    ex._call = call
    pre = [domain(y, m, dow, dom), admitted(dow, dom, m)]
    paths = ex.run('calc_day_of_month', {'year': y, 'month': m, 'on_day_of_week': dow, 'on_day_of_month': dom}, pre=pre)
    n = 0
    for p in paths:
        if p.outcome != 'return':
            out.append(('py:calc_day_of_month#no-exception#%d' % n, p.pc, z3.BoolVal(False)))
        else:
            rm, rd = p.value
            from vc.pyvc import as_int
            rm, rd = as_int(rm), as_int(rd)
            out.append(('py:calc_day_of_month#calendar-answer#%d' % n, p.pc, calendar_answer(y, m, dow, dom, rm, rd)))
            out.append(('py:calc_day_of_month#month-in-range#%d' % n, p.pc, z3.And(rm >= 1, rm <= 12)))
        n += 1
    for name, pc, goal in ex.obligations:
        out.append(('py:' + name, pc, goal))
    # the compiler's admission filter rejects every expression that could leave the year
    out.append(('py:admission-filter-rejects-year-spill', [domain(y, m, dow, dom), admitted(dow, dom, m)], no_year_spill(m, dom)))
    # vacuity guards
    out.append(('cover:filter-admits-something', None, z3.And(domain(y, m, dow, dom), admitted(dow, dom, m))))
    return out, tests, len(paths)


@lemma('C18')
def answer_is_unique(ex):
    """the calendar characterisation determines (month, day) uniquely, so C++ == Python == calendar"""
    y, m, dow, dom, a1, b1, a2, b2 = z3.Ints('u_y u_m u_dow u_dom u_a1 u_b1 u_a2 u_b2')
    return [LemmaOb('calendar answer is unique',
                    [domain(y, m, dow, dom), calendar_answer(y, m, dow, dom, a1, b1), calendar_answer(y, m, dow, dom, a2, b2)],
                    z3.And(a1 == a2, b1 == b2), cases=[('m%d' % k, m == k) for k in range(1, 13)])]
