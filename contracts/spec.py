"""Mathematical vocabulary shared by all contracts (DESIGN.md 2.1).

Every function works on z3 terms of either sort Int or BitVec (all operands of
one call must have the same sort/width).  Divisions are only ever applied to
non-negative dividends and positive constant divisors, where truncating (bit
vector) and Euclidean (Int) division agree with floor division; the callers
establish non-negativity from the stated argument ranges.
"""
import z3


def K(like, v):
    if z3.is_bv(like):
        return z3.BitVecVal(v, like.size())
    return z3.IntVal(v)


def div(x, c):
    """floor(x / c) for x >= 0, c > 0 constant."""
    if z3.is_bv(x):
        return z3.UDiv(x, K(x, c))
    return x / z3.IntVal(c)


def mod(x, c):
    if z3.is_bv(x):
        return z3.URem(x, K(x, c))
    return x % z3.IntVal(c)


def sx(v, bits):
    if v.size() == bits:
        return v
    return z3.SignExt(bits - v.size(), v)


def zx(v, bits):
    if v.size() == bits:
        return v
    return z3.ZeroExt(bits - v.size(), v)


def is_leap(y):
    """Gregorian leap rule; y > 0."""
    return z3.Or(z3.And(mod(y, 4) == 0, mod(y, 100) != 0), mod(y, 400) == 0)


_CUM = [0, 31, 59, 90, 120, 151, 181, 212, 243, 273, 304, 334]
_DIM = [31, 28, 31, 30, 31, 30, 31, 31, 30, 31, 30, 31]


def _table(m, tab):
    r = K(m, tab[11])
    for i in range(10, -1, -1):
        r = z3.If(m == K(m, i + 1), K(m, tab[i]), r)
    return r


def days_in_month(y, m):
    return _table(m, _DIM) + z3.If(z3.And(m == K(m, 2), is_leap(y)), K(m, 1), K(m, 0))


def leaps_before(y):
    """number of leap years in [1, y-1]; y >= 1."""
    y1 = y - K(y, 1)
    return div(y1, 4) - div(y1, 100) + div(y1, 400)


def days_from_civil(y, m, d):
    """Days from 2000-01-01 to y-m-d in the proleptic Gregorian calendar; y >= 1, 1<=m<=12.
    Written as 'whole years + whole months + days' -- deliberately not the Julian-day formula of the code."""
    return (K(y, 365) * (y - K(y, 2000)) + leaps_before(y) - K(y, 484)
            + _table(m, _CUM) + z3.If(z3.And(m > K(m, 2), is_leap(y)), K(m, 1), K(m, 0))
            + d - K(y, 1))


def valid_ymd(y, m, d):
    return z3.And(m >= K(m, 1), m <= K(m, 12), d >= K(d, 1), d <= days_in_month(y, m))


def iso_weekday(n):
    """ISO weekday (1=Monday..7=Sunday) of epoch day n >= -1000000; 2000-01-01 was a Saturday (6)."""
    # (n + 5) mod 7 + 1 with a positive shift: 700000 is a multiple of 7
    return mod(n + K(n, 700000 + 5), 7) + K(n, 1)
