"""C10 (zone manager part) and C16 -- TimeZone as a value: equality, manual offsets, save/restore."""
import z3
from .reg import contract, lemma, bv32, sx, zx, byte, LemmaOb, instantiate
from vc.symex import MemView, LoopSpec, Ptr, BV
from . import registrar as rg
from .registrar import G, IDG, ZIG, KEY, INVALID, absent, id_absent, monotone

TZ = 'ace_time::TimeZone'
TZD = 'ace_time::TimeZoneData'
P64 = z3.BitVecSort(64)
# type tag reported by a processor cache object (virtual getType()): a function of the cache object
CT = z3.Function('cache_type', P64, z3.BitVecSort(8))

K_ERROR, K_MANUAL, K_BASIC, K_EXT, K_BASIC_M, K_EXT_M = 0, 1, 2, 3, 4, 5
D_ERROR, D_MANUAL, D_ZONEID = 0, 1, 2

contract('virtual ace_time::ZoneProcessorCache::getType()', extern=True,
         model=lambda ex, st, c: CT(ex.ptr_to_bv(c.args[0])),
         note='ASSUMED only that the tag is a function of the cache object; the two overrides are verified separately')


def tz_fields(view, p):
    f = lambda n: view.field(p, TZ, n)
    return dict(type=f('mType'), std=f('mStdOffsetMinutes'), dst=f('mDstOffsetMinutes'), zi=f('mZoneInfo'), proc=f('mZoneProcessor'))


def tzd_fields(view, p):
    f = lambda n: view.field(p, TZD, n)
    return dict(type=f('type'), std=f('stdOffsetMinutes'), dst=f('dstOffsetMinutes'), zid=f('zoneId'))


def tz_equal(a, b):
    """two time zones compare equal exactly when they denote the same kind and the same zone or the same offsets"""
    same_kind = a['type'] == b['type']
    t = a['type']
    zone_kind = z3.Or(t == K_BASIC, t == K_EXT, t == K_BASIC_M, t == K_EXT_M)
    return z3.And(same_kind, z3.Or(t == K_ERROR,
                                   z3.And(t == K_MANUAL, a['std'] == b['std'], a['dst'] == b['dst']),
                                   z3.And(zone_kind, a['zi'] == b['zi'])))


contract('ace_time::operator==(ace_time::TimeZone const&, ace_time::TimeZone const&)', pure=True, props=['C16'],
         ensures=lambda c: [('iff-same-kind-and-same-zone-or-offsets',
                             (c.result == 1) == tz_equal(tz_fields(c.old, c.args[0]), tz_fields(c.old, c.args[1])))])


def tzd_equal(a, b):
    t = a['type']
    return z3.And(a['type'] == b['type'],
                  z3.Or(t == D_ERROR, z3.And(t == D_MANUAL, a['std'] == b['std'], a['dst'] == b['dst']),
                        z3.And(t == D_ZONEID, a['zid'] == b['zid'])))


contract('ace_time::operator==(ace_time::TimeZoneData const&, ace_time::TimeZoneData const&)', pure=True, props=['C16'],
         ensures=lambda c: [('iff', (c.result == 1) == tzd_equal(tzd_fields(c.old, c.args[0]), tzd_fields(c.old, c.args[1])))])


def _for_offset_post(c):
    n = tz_fields(c.new, c.args[0])     # sret
    return [('manual', n['type'] == K_MANUAL), ('std', n['std'] == c.args[1]), ('dst', n['dst'] == c.args[2])]


contract('ace_time::TimeZone::forTimeOffset(ace_time::TimeOffset, ace_time::TimeOffset)', props=['C16'],
         ensures=_for_offset_post, assigns=lambda c: [(c.args[0], 24)])
contract('ace_time::TimeZone::forError()', props=['C16'],
         ensures=lambda c: [('error', tz_fields(c.new, c.args[0])['type'] == K_ERROR)], assigns=lambda c: [(c.args[0], 24)])

for ns, kind, procname in (('basic', K_BASIC, 'ace_time::BasicZoneProcessor'), ('extended', K_EXT, 'ace_time::ExtendedZoneProcessor')):
    def _fzi_post(c, kind=kind):
        n = tz_fields(c.new, c.args[0])
        return [('kind', n['type'] == kind), ('zone', n['zi'] == c.ex.ptr_to_bv(c.args[1])), ('processor', n['proc'] == c.ex.ptr_to_bv(c.args[2]))]
    contract('ace_time::TimeZone::forZoneInfo(ace_time::%s::ZoneInfo const*, %s*)' % (ns, procname), props=['C16'],
             ensures=_fzi_post, assigns=lambda c: [(c.args[0], 24)])


def zone_id_of(c, view, zi_bv):
    """zoneId field of the ZoneInfo a time zone points at (same layout in both scopes)"""
    off, _ = c.mod.field('ace_time::basic::ZoneInfo', 'zoneId')
    return view.load(Ptr(None, zi_bv + off), 4)


def _get_zone_id_post(c):
    f = tz_fields(c.old, c.this)
    t = f['type']
    zone_kind = z3.Or(t == K_BASIC, t == K_EXT, t == K_BASIC_M, t == K_EXT_M)
    return [('zone-kinds-read-the-id', z3.Implies(zone_kind, c.result == zone_id_of(c, c.old, f['zi']))),
            ('others-zero', z3.Implies(z3.Not(zone_kind), c.result == 0))]


contract('ace_time::TimeZone::getZoneId() const', pure=True, props=['C16'], ensures=_get_zone_id_post)


def _to_data_post(c):
    f = tz_fields(c.old, c.this)
    d = c.result     # TimeZoneData is returned coerced in an i64: byte 0 = type, bytes 4..7 = union
    t = f['type']
    dtype = byte(d, 0)
    zone_kind = z3.Or(t == K_BASIC, t == K_EXT, t == K_BASIC_M, t == K_EXT_M)
    std = z3.Extract(47, 32, d)
    dst = z3.Extract(63, 48, d)
    zid = z3.Extract(63, 32, d)
    return [('manual', z3.Implies(t == K_MANUAL, z3.And(dtype == D_MANUAL, std == f['std'], dst == f['dst']))),
            ('zone', z3.Implies(zone_kind, z3.And(dtype == D_ZONEID, zid == zone_id_of(c, c.old, f['zi'])))),
            ('error-and-unknown-kinds', z3.Implies(z3.And(t != K_MANUAL, z3.Not(zone_kind)), dtype == D_ERROR))]


contract('ace_time::TimeZone::toTimeZoneData() const', pure=True, props=['C16'], ensures=_to_data_post)


def _utc_offset_manual_post(c):
    f = tz_fields(c.old, c.this)
    s = sx(f['std']) + sx(f['dst'])
    fits = z3.And(s > -32768, s <= 32767)
    return [('manual-is-std-plus-dst', z3.Implies(z3.And(f['type'] == K_MANUAL, fits), sx(c.result) == s)),
            ('error-kind-gives-error-offset', z3.Implies(f['type'] == K_ERROR, c.result == z3.BitVecVal(-32768, 16)))]


# getUtcOffset as a whole (all kinds) is under contract for C05/C08; here only the manual / error clauses are stated
MANUAL_UTC = _utc_offset_manual_post


# ---- zone manager ---------------------------------------------------------------------------------

def managers():
    for ns, cache in (('basic', 'BasicZoneProcessorCache'), ('extended', 'ExtendedZoneProcessorCache')):
        zr = [z for n, z in rg.variants() if n == ns][0]
        zm = 'ace_time::ZoneManagerImpl<ace_time::%s::ZoneInfo, %s, ace_time::%s<(unsigned char)2> >' % (ns, zr, cache)
        yield ns, zr, zm


def _make_mgr(ns, ZR, ZM):
    ZI = 'ace_time::%s::ZoneInfo' % ns

    def mf(view, this):
        f = lambda n: view.field(this, ZM, n)
        cache_off, _ = view.ex.mod.field(ZM, 'mZoneProcessorCache')
        return dict(size=f('mZoneRegistrar.mRegistrySize'), reg=f('mZoneRegistrar.mZoneRegistry'),
                    srt=f('mZoneRegistrar.mIsSorted'), cache=view.ex.ptr_to_bv(view.ex.ptr_add(this, cache_off)))

    def pre(c, this):
        m = mf(c.old, this)
        c.ghost['registry_size'] = m['size']
        j = z3.BitVec('qn', 16)
        return [z3.ULE(m['srt'], 1), z3.Implies(m['srt'] == 1, z3.And(m['size'] != 0, monotone(m['reg'], m['size']))),
                z3.ForAll([j], z3.Implies(z3.ULT(j, m['size']), ZIG(m['reg'], j) != 0), patterns=[ZIG(m['reg'], j)])]

    def made_for(c, tz, m, zi):
        """the result is a (managed) time zone for exactly the entry zi of this manager"""
        return z3.And(tz['type'] == CT(m['cache']), tz['zi'] == zi, tz['proc'] == m['cache'])

    def _cfzi_post(c):
        m = mf(c.old, c.args[1])
        tz = tz_fields(c.new, c.args[0])
        zi = c.ex.ptr_to_bv(c.args[2])
        return [('null-gives-error', z3.Implies(zi == 0, tz['type'] == K_ERROR)),
                ('entry-gives-its-time-zone', z3.Implies(zi != 0, made_for(c, tz, m, zi)))]

    contract(ZM + '::createForZoneInfo(%s const*)' % ZI, props=['C10', 'C16'], ensures=_cfzi_post,
             assigns=lambda c: [(c.args[0], 24)])

    def _cfname_post(c):
        m = mf(c.old, c.args[1])
        tz = tz_fields(c.new, c.args[0])
        kq = KEY(c.ex.ptr_to_bv(c.args[2]))
        j = z3.BitVec('qr', 16)
        return [('absent-gives-error', z3.Implies(absent(m['reg'], m['size'], kq), tz['type'] == K_ERROR)),
                ('error-only-if-absent', z3.Implies(z3.And(tz['type'] == K_ERROR, CT(m['cache']) != K_ERROR), absent(m['reg'], m['size'], kq))),
                ('found-is-that-zone', z3.Implies(tz['type'] != K_ERROR,
                                                  z3.Exists([j], z3.And(z3.ULT(j, m['size']), G(m['reg'], j) == kq, made_for(c, tz, m, ZIG(m['reg'], j))))))]

    contract(ZM + '::createForZoneName(char const*)', props=['C10'], requires=lambda c: pre(c, c.args[1]) + [CT(mf(c.old, c.args[1])['cache']) != K_ERROR],
             ensures=_cfname_post, assigns=lambda c: [(c.args[0], 24)])

    def _cfid_post(c):
        m = mf(c.old, c.args[1])
        tz = tz_fields(c.new, c.args[0])
        zid = c.args[2]
        j = z3.BitVec('qr', 16)
        return [('absent-gives-error', z3.Implies(id_absent(m['reg'], m['size'], zid), tz['type'] == K_ERROR)),
                ('error-only-if-absent', z3.Implies(tz['type'] == K_ERROR, id_absent(m['reg'], m['size'], zid))),
                ('found-is-first-zone-with-that-id', z3.Implies(tz['type'] != K_ERROR,
                    z3.Exists([j], z3.And(z3.ULT(j, m['size']), IDG(m['reg'], j) == zid, id_absent(m['reg'], j, zid),
                                          made_for(c, tz, m, ZIG(m['reg'], j))))))]

    contract(ZM + '::createForZoneId(unsigned int)', props=['C10', 'C16'],
             requires=lambda c: pre(c, c.args[1]) + [CT(mf(c.old, c.args[1])['cache']) != K_ERROR],
             ensures=_cfid_post, assigns=lambda c: [(c.args[0], 24)])

    def _cfindex_post(c):
        m = mf(c.old, c.args[1])
        tz = tz_fields(c.new, c.args[0])
        i = c.args[2]
        return [('out-of-range-gives-error', z3.Implies(z3.UGE(i, m['size']), tz['type'] == K_ERROR)),
                ('in-range-gives-that-zone', z3.Implies(z3.ULT(i, m['size']), made_for(c, tz, m, ZIG(m['reg'], i))))]

    contract(ZM + '::createForZoneIndex(unsigned short)', props=['C10'], requires=lambda c: pre(c, c.args[1]),
             ensures=_cfindex_post, assigns=lambda c: [(c.args[0], 24)])

    def _index_name_post(c):
        m = mf(c.old, c.this)
        kq = KEY(c.ex.ptr_to_bv(c.args[1]))
        r = c.result
        return [('found-is-exact', z3.Implies(r != INVALID, z3.And(z3.ULT(r, m['size']), G(m['reg'], r) == kq))),
                ('not-found-means-absent', z3.Implies(r == INVALID, absent(m['reg'], m['size'], kq)))]

    contract(ZM + '::indexForZoneName(char const*) const', pure=True, props=['C10'], requires=lambda c: pre(c, c.this), ensures=_index_name_post)

    def _index_id_post(c):
        m = mf(c.old, c.this)
        zid = c.args[1]
        r = c.result
        return [('found-is-exact', z3.Implies(r != INVALID, z3.And(z3.ULT(r, m['size']), IDG(m['reg'], r) == zid))),
                ('not-found-means-absent', z3.Implies(r == INVALID, id_absent(m['reg'], m['size'], zid)))]

    contract(ZM + '::indexForZoneId(unsigned int) const', pure=True, props=['C10'], requires=lambda c: pre(c, c.this), ensures=_index_id_post)
    contract(ZM + '::registrySize() const', pure=True, props=['C10'],
             ensures=lambda c: [('size', c.result == mf(c.old, c.this)['size'])])

    # ---- restore from the serialisable form ----
    def _cfdata_post(c):
        m = mf(c.old, c.args[1])
        tz = tz_fields(c.new, c.args[0])
        d = tzd_fields(c.old, c.args[2])
        j = z3.BitVec('qr', 16)
        return [('manual-restores-both-offsets', z3.Implies(d['type'] == D_MANUAL, z3.And(tz['type'] == K_MANUAL, tz['std'] == d['std'], tz['dst'] == d['dst']))),
                ('error-restores-error', z3.Implies(d['type'] == D_ERROR, tz['type'] == K_ERROR)),
                ('id-not-in-registry-restores-error', z3.Implies(z3.And(d['type'] == D_ZONEID, id_absent(m['reg'], m['size'], d['zid'])), tz['type'] == K_ERROR)),
                ('id-in-registry-restores-that-zone', z3.Implies(z3.And(d['type'] == D_ZONEID, z3.Not(id_absent(m['reg'], m['size'], d['zid']))),
                    z3.Exists([j], z3.And(z3.ULT(j, m['size']), IDG(m['reg'], j) == d['zid'], id_absent(m['reg'], j, d['zid']),
                                          made_for(c, tz, m, ZIG(m['reg'], j))))))]

    contract(ZM + '::createForTimeZoneData(ace_time::TimeZoneData const&)', props=['C16'],
             requires=lambda c: pre(c, c.args[1]) + [CT(mf(c.old, c.args[1])['cache']) != K_ERROR],
             ensures=_cfdata_post, assigns=lambda c: [(c.args[0], 24)])


for _ns, _zr, _zm in managers():
    _make_mgr(_ns, _zr, _zm)


# ---- processors and caches as seen from TimeZone (environment objects with ghost binding state) ----
BOUND0 = z3.Const('gh_bound0', z3.ArraySort(P64, P64))     # processor object -> zone it is currently bound to


def _bound(st):
    return st.ghost.get('bound', BOUND0)


def _set_zone_info_model(ex, st, c):
    p, zi = ex.ptr_to_bv(c.args[0]), ex.ptr_to_bv(c.args[1])
    st.ghost = dict(st.ghost)
    st.ghost['bound'] = z3.Store(_bound(st), p, zi)
    st.log.append(('setZoneInfo', p, [zi]))
    return None


contract('virtual ace_time::ZoneProcessor::setZoneInfo(void const*)', extern=True, model=_set_zone_info_model,
         note='contract of every override (proved for both processors, C08): afterwards the processor is bound to the given zone')


def _query_model(tag, bits):
    def model(ex, st, c):
        p = ex.ptr_to_bv(c.args[-1 if tag == 'getOffsetDateTime_sret' else 0])
        st.log.append((tag, p, [z3.Select(_bound(st), p)]))
        if bits is None:
            return None
        if bits == 'ptr':
            return Ptr(None, ex.fresh('proc_' + tag, 64))
        return ex.fresh('proc_' + tag, bits)
    return model


contract('virtual ace_time::ZoneProcessor::getUtcOffset(int) const', extern=True, model=_query_model('getUtcOffset', 16),
         note='ASSUMED: returns an arbitrary TimeOffset (possibly the error value) -- what it computes is C01/C02')
contract('virtual ace_time::ZoneProcessor::getDeltaOffset(int) const', extern=True, model=_query_model('getDeltaOffset', 16))
contract('virtual ace_time::ZoneProcessor::getAbbrev(int) const', extern=True, model=_query_model('getAbbrev', 'ptr'))
contract('virtual ace_time::ZoneProcessor::getOffsetDateTime(ace_time::LocalDateTime const&) const', extern=True,
         model=_query_model('getOffsetDateTime', 64))
def _get_zone_id_model(ex, st, c):
    # contract of every override (BasicZoneProcessor / ExtendedZoneProcessor::getZoneId read mZoneInfo): the id recorded in the
    # zone info the processor is bound to -- NOT necessarily the zone of the TimeZone that asks
    p = ex.ptr_to_bv(c.args[0])
    zi = z3.Select(_bound(st), p)
    st.log.append(('getZoneId', p, [zi]))
    off, n = ex.mod.field('ace_time::basic::ZoneInfo', 'zoneId')       # same offset in extended::ZoneInfo
    view = MemView(ex, st.bytes, st.mem, dict(st.typed))
    return view.load(Ptr(None, zi + off), n)


contract('virtual ace_time::ZoneProcessor::getZoneId() const', extern=True, model=_get_zone_id_model,
         note='contract of both overrides: the zone id recorded in the zone info the processor is currently bound to')
contract('virtual ace_time::ZoneProcessor::printTo(Print&) const', extern=True, model=_query_model('printTo', None))
contract('virtual ace_time::ZoneProcessor::printShortTo(Print&) const', extern=True, model=_query_model('printShortTo', None))


def _get_zone_processor_model(ex, st, c):
    cache, zi = ex.ptr_to_bv(c.args[0]), ex.ptr_to_bv(c.args[1])
    p = ex.fresh('cache_proc', 64)
    st.ghost = dict(st.ghost)
    # contract of the cache (proved on ZoneProcessorCacheImpl::getZoneProcessor, C08): the processor returned is bound to the key
    st.ghost['bound'] = z3.Store(_bound(st), p, zi)
    st.log.append(('getZoneProcessor', cache, [zi, p]))
    return Ptr(None, p)


contract('virtual ace_time::ZoneProcessorCache::getZoneProcessor(void const*)', extern=True, model=_get_zone_processor_model,
         note='contract of the cache (proved separately): returns a processor bound to the requested zone, or null')

DELEGATING = ('getUtcOffset', 'getDeltaOffset', 'getAbbrev', 'getOffsetDateTime', 'printTo', 'printShortTo')


def bound_to_own_zone(c):
    """every processor query made on behalf of this time zone found the processor bound to this zone"""
    if not c.own:
        return []       # a statement about the calls made DURING this call: proved at its own exit, says nothing at a call site
    f = tz_fields(c.old, c.this if c.fn is None or c.fn.params[0][1] == 'this' else c.args[1])
    out = []
    for k, e in enumerate(c.log):
        if len(e) != 3:
            continue
        tag, p, extra = e
        if tag in DELEGATING:
            out.append(('processor-bound-to-this-zone@%s#%d' % (tag, k), extra[0] == f['zi']))
    return out


def _utc_post(c):
    f = tz_fields(c.old, c.this)
    t = f['type']
    zone_kind = z3.Or(t == K_BASIC, t == K_EXT, t == K_BASIC_M, t == K_EXT_M)
    out = _utc_offset_manual_post(c)
    out.append(('unknown-kind-gives-error-offset', z3.Implies(z3.And(t != K_MANUAL, z3.Not(zone_kind)), c.result == z3.BitVecVal(-32768, 16))))
    out += bound_to_own_zone(c)
    return out


contract('ace_time::TimeZone::getUtcOffset(int) const', props=['C16', 'C08'], ensures=_utc_post, assigns=lambda c: [])


# ---- lemmas for C16 --------------------------------------------------------------------------------

@lemma('C16')
def save_restore_round_trip(ex):
    """restore(save(tz)) == tz for a zone created by the same manager, when registry ids are pairwise distinct;
    manual zones restore to the same offsets; error zones to error zones."""
    from vc.symex import MemView
    out = []
    for ns, ZR, ZM in managers():
        mem = z3.Const('lm_mem', ex.mem_sort)
        mem2 = z3.Const('lm_mem2', ex.mem_sort)
        mgr = Ptr(None, z3.BitVec('lm_mgr', 64))
        tzp = Ptr(None, z3.BitVec('lm_tz', 64))
        outp = Ptr(None, z3.BitVec('lm_out', 64))
        dp = Ptr(None, z3.BitVec('lm_d', 64))
        V = MemView(ex, {}, mem)
        size = V.field(mgr, ZM, 'mZoneRegistrar.mRegistrySize')
        reg = V.field(mgr, ZM, 'mZoneRegistrar.mZoneRegistry')
        tz = tz_fields(V, tzp)
        j = z3.BitVec('lm_j', 16)
        d = z3.BitVec('lm_data', 64)
        # save
        _, post_save = instantiate(ex, 'ace_time::TimeZone::toTimeZoneData() const', [tzp], mem_old=mem, result=d)
        # the saved record laid out in memory at dp
        memd = z3.Store(z3.Store(z3.Store(z3.Store(z3.Store(mem, dp.off, byte(d, 0)), dp.off + 4, byte(d, 4)), dp.off + 5, byte(d, 5)),
                                 dp.off + 6, byte(d, 6)), dp.off + 7, byte(d, 7))
        pre_r, post_r = instantiate(ex, ZM + '::createForTimeZoneData(ace_time::TimeZoneData const&)', [outp, mgr, dp],
                                    mem_old=memd, mem_new=mem2)
        res = tz_fields(MemView(ex, {}, mem2), outp)
        a, b = z3.BitVecs('qa qb', 16)
        distinct_ids = z3.ForAll([a, b], z3.Implies(z3.And(z3.ULT(a, size), z3.ULT(b, size), IDG(reg, a) == IDG(reg, b)), a == b),
                                 patterns=[z3.MultiPattern(IDG(reg, a), IDG(reg, b))])
        frame = [  # the manager object and the registry are not touched by writing the record at dp (separate objects)
            MemView(ex, {}, memd).field(mgr, ZM, 'mZoneRegistrar.mRegistrySize') == size,
            MemView(ex, {}, memd).field(mgr, ZM, 'mZoneRegistrar.mZoneRegistry') == reg,
            MemView(ex, {}, memd).field(mgr, ZM, 'mZoneRegistrar.mIsSorted') == V.field(mgr, ZM, 'mZoneRegistrar.mIsSorted')]
        cache_off, _ = ex.mod.field(ZM, 'mZoneProcessorCache')
        cache = mgr.off + cache_off
        created = z3.And(z3.ULT(j, size), tz['type'] == CT(cache), tz['zi'] == ZIG(reg, j), tz['proc'] == cache,
                         z3.Or(CT(cache) == K_BASIC_M, CT(cache) == K_EXT_M))
        id_def = zone_id_of_view(ex, V, ZIG(reg, j)) == IDG(reg, j)     # instance of the definition of IDG
        out.append(LemmaOb('%s: restore(save(tz)) == tz for a zone created by the manager' % ns,
                           post_save + post_r + frame + [created, id_def, distinct_ids], tz_equal(tz, res)))
        out.append(LemmaOb('%s: manual zones restore to the same offsets' % ns,
                           post_save + post_r + [tz['type'] == K_MANUAL], z3.And(res['type'] == K_MANUAL, res['std'] == tz['std'], res['dst'] == tz['dst'])))
        out.append(LemmaOb('%s: error zones restore to error zones' % ns,
                           post_save + post_r + [tz['type'] == K_ERROR], res['type'] == K_ERROR))
        out.append(LemmaOb('%s: ids not in the registry restore to the error zone' % ns,
                           post_r + [tzd_fields(MemView(ex, {}, memd), dp)['type'] == D_ZONEID,
                                     id_absent(reg, size, tzd_fields(MemView(ex, {}, memd), dp)['zid'])] + frame,
                           res['type'] == K_ERROR))
    return out


def zone_id_of_view(ex, view, zi_bv):
    off, _ = ex.mod.field('ace_time::basic::ZoneInfo', 'zoneId')
    return view.load(Ptr(None, zi_bv + off), 4)


# ---- manual-zone accessors and mutators (C16: "a manual zone's offset is always standard plus DST offset") ----------------
def _manual_acc(name, field, ret_bits=16):
    def post(c):
        f = tz_fields(c.old, c.this)
        return [('the-stored-%s-offset' % field, c.result == f[field])]
    contract('ace_time::TimeZone::%s() const' % name, pure=True, props=['C16'], ensures=post)


_manual_acc('getStdOffset', 'std')
_manual_acc('getDstOffset', 'dst')
contract('ace_time::TimeZone::isUtc() const', pure=True, props=['C16'],
         ensures=lambda c: [('manual-with-both-offsets-zero', (c.result == 1) == z3.And(tz_fields(c.old, c.this)['type'] == K_MANUAL,
                                                                                      tz_fields(c.old, c.this)['std'] == 0, tz_fields(c.old, c.this)['dst'] == 0))])
contract('ace_time::TimeZone::isDst() const', pure=True, props=['C16'],
         ensures=lambda c: [('manual-with-a-dst-shift', (c.result == 1) == z3.And(tz_fields(c.old, c.this)['type'] == K_MANUAL, tz_fields(c.old, c.this)['dst'] != 0))])


def _setter(name, field, other):
    def post(c):
        o, n = tz_fields(c.old, c.this), tz_fields(c.new, c.this)
        v = c.args[1]
        return [('manual-zone-takes-the-offset', z3.Implies(o['type'] == K_MANUAL, n[field] == v)),
                ('other-kinds-unchanged', z3.Implies(o['type'] != K_MANUAL, n[field] == o[field])),
                # (the offsets share storage with the zone-info / processor pointers of the other kinds: a union)
                ('nothing-else-changes', z3.And(n[other] == o[other], n['type'] == o['type'],
                                                z3.Implies(o['type'] != K_MANUAL, z3.And(n['zi'] == o['zi'], n['proc'] == o['proc']))))]
    contract('ace_time::TimeZone::%s(ace_time::TimeOffset)' % name, props=['C16'], ensures=post,
             assigns=lambda c: [c.field_addr(c.this, TZ, 'mStdOffsetMinutes' if field == 'std' else 'mDstOffsetMinutes')])


_setter('setStdOffset', 'std', 'dst')
_setter('setDstOffset', 'dst', 'std')


# ---- operator!= is the negation of operator== (C16: "compare equal exactly when ...") ---------------------------------------
def _neq(T):
    def post(c):
        if not c.own:
            return []   # stated through this call's own call to operator==; nothing is exported to call sites
        calls = [e for e in c.log if e[0] == 'call' and e[1].startswith('ace_time::operator==(' + T)]
        if not calls:
            return [('decided-by-operator==', z3.BoolVal(False))]
        _, _, args, rv = calls[-1]
        same = z3.And(c.ex.ptr_to_bv(args[0]) == c.ex.ptr_to_bv(c.args[0]), c.ex.ptr_to_bv(args[1]) == c.ex.ptr_to_bv(c.args[1]))
        return [('negation-of-operator==-on-the-same-operands', z3.And(same, (c.result == 1) == (rv == 0)))]
    contract('ace_time::operator!=(%s const&, %s const&)' % (T, T), pure=True, props=['C16'], ensures=post)


_neq('ace_time::TimeZone')
_neq('ace_time::TimeZoneData')
