"""C05 -- instant <-> zoned / offset date-time round trip; conversions preserve the instant."""
import z3
from .reg import contract, lemma, bv32, sx, zx, byte, INT32_MIN, LemmaOb, instantiate, obj_at
from vc.symex import Ptr, BV
from . import calendar as cal
from .calendar import ldt_valid, ldt_is_error, ldt_seconds64, ldt_result_fields, ldt_fields, range_cases
from . import timezone as tzc

ODT = 'ace_time::OffsetDateTime'
ZDT = 'ace_time::ZonedDateTime'
MIN32 = bv32(INT32_MIN)
UNIX = 946684800
ERR_OFF = z3.BitVecVal(-32768, 16)


def b64(v):
    return z3.BitVecVal(v, 64)


def odt_fields_val(v64):
    """(ldt fields, offset) of an OffsetDateTime passed by value as an i64"""
    return tuple(byte(v64, k) for k in range(6)), z3.Extract(63, 48, v64)


def odt_fields_mem(view, p):
    f = cal.ldt_fields(view, p)
    off = view.field(p, ODT, 'mTimeOffset.mMinutes')
    return f, off


def odt_is_error(f, off):
    return z3.Or(off == ERR_OFF, ldt_is_error(f))


def in_range(s, o):
    """the local instant s + 60 o is a representable non-sentinel acetime_t"""
    loc = sx(s, 64) + 60 * sx(o, 64)
    return z3.And(s != MIN32, loc > b64(INT32_MIN), loc <= b64((1 << 31) - 1))


def _odt_fes_post(c):
    s, o = c.args
    f, off = odt_fields_val(c.result)
    ok = z3.And(in_range(s, o), o != ERR_OFF)
    return [('offset-kept', off == o),
            ('sentinel-gives-error', z3.Implies(s == MIN32, odt_is_error(f, off))),
            ('valid-fields', z3.Implies(ok, ldt_valid(f))),
            ('fields-are-utc-fields-shifted-by-offset', z3.Implies(ok, ldt_seconds64(f) == sx(s, 64) + 60 * sx(o, 64)))]


contract('ace_time::OffsetDateTime::forEpochSeconds(int, ace_time::TimeOffset)', pure=True, props=['C05'], ensures=_odt_fes_post)


def _odt_tes_post(c):
    f, off = odt_fields_mem(c.old, c.this)
    err = odt_is_error(f, off)
    return [('error-sentinel', z3.Implies(err, c.result == MIN32)),
            ('instant', z3.Implies(z3.Not(err), c.result == z3.Extract(31, 0, ldt_seconds64(f) - 60 * sx(off, 64))))]


contract('ace_time::OffsetDateTime::toEpochSeconds() const', pure=True, props=['C05'], ensures=_odt_tes_post)


def _odt_tus_post(c):
    f, off = odt_fields_mem(c.old, c.this)
    err = odt_is_error(f, off)
    return [('error-sentinel', z3.Implies(err, c.result == MIN32)),
            ('unix-is-epoch-plus-946684800', z3.Implies(z3.Not(err), c.result == z3.Extract(31, 0, ldt_seconds64(f) - 60 * sx(off, 64)) + UNIX))]


contract('ace_time::OffsetDateTime::toUnixSeconds() const', pure=True, props=['C05'], ensures=_odt_tus_post)


def _odt_fus_post(c):
    u, o = c.args
    f, off = odt_fields_val(c.result)
    s = u - UNIX
    ok = z3.And(u != MIN32, in_range(s, o), o != ERR_OFF, u >= bv32(INT32_MIN + UNIX))
    return [('offset-kept', off == o),
            ('sentinel-gives-error', z3.Implies(u == MIN32, odt_is_error(f, off))),
            ('valid-fields', z3.Implies(ok, ldt_valid(f))),
            ('same-instant-as-epoch-variant', z3.Implies(ok, ldt_seconds64(f) == sx(s, 64) + 60 * sx(o, 64)))]


contract('ace_time::OffsetDateTime::forUnixSeconds(int, ace_time::TimeOffset)', pure=True, props=['C05'], ensures=_odt_fus_post)


def _odt_convert_post(c):
    f, off = odt_fields_mem(c.old, c.this)
    o2 = c.args[1]
    g, off2 = odt_fields_val(c.result)
    inst = z3.Extract(31, 0, ldt_seconds64(f) - 60 * sx(off, 64))
    ok = z3.And(z3.Not(odt_is_error(f, off)), in_range(inst, o2), o2 != ERR_OFF)
    return [('offset-is-target', off2 == o2),
            ('valid-fields', z3.Implies(ok, ldt_valid(g))),
            ('same-instant', z3.Implies(ok, ldt_seconds64(g) - 60 * sx(o2, 64) == sx(inst, 64)))]


contract('ace_time::OffsetDateTime::convertToTimeOffset(ace_time::TimeOffset) const', pure=True, props=['C05'], ensures=_odt_convert_post, logic='int')


def instant_of(f, off):
    return z3.If(odt_is_error(f, off), MIN32, z3.Extract(31, 0, ldt_seconds64(f) - 60 * sx(off, 64)))


def _odt_cmp_post(c):
    a = instant_of(*odt_fields_mem(c.old, c.this))
    b = instant_of(*odt_fields_mem(c.old, c.args[1]))
    r = c.result
    return [('lt', z3.Implies(a < b, r == z3.BitVecVal(-1, 8))), ('gt', z3.Implies(a > b, r == 1)), ('eq', z3.Implies(a == b, r == 0))]


contract('ace_time::OffsetDateTime::compareTo(ace_time::OffsetDateTime const&) const', pure=True, props=['C05'], ensures=_odt_cmp_post)
contract('ace_time::OffsetDateTime::isError() const', pure=True, props=['C05'],
         ensures=lambda c: [('iff', (c.result == 1) == odt_is_error(*odt_fields_mem(c.old, c.this)))])

# ---- ZonedDateTime ---------------------------------------------------------------------------------


def zdt_odt(view, p):
    return odt_fields_mem(view, p)


def tz_bytes(view, p, n=None):
    if n is None:
        n = view.ex.mod.size_of(view.ex.mod.types['class.ace_time::TimeZone'])     # 24 on x86-64, smaller with 16-bit pointers
    return [view.load(view.ex.ptr_add(p, k), 1) for k in range(n)]


def _offset_from_log(c):
    """the offset the time zone reported for this call (value returned by TimeZone::getUtcOffset)"""
    for e in c.log:
        if e[0] == 'call' and e[1].startswith('ace_time::TimeZone::getUtcOffset'):
            return e[3]
    return None


def _zdt_fes_post(c):
    res, s, tz = c.args      # sret, epochSeconds, const TimeZone&
    f, off = zdt_odt(c.new, res)
    tz_off, _ = c.mod.field(ZDT, 'mTimeZone')
    copied = [a == b for a, b in zip(tz_bytes(c.new, c.ex.ptr_add(res, tz_off)), tz_bytes(c.old, tz))]
    out = [('time-zone-copied-byte-%d' % k, e) for k, e in enumerate(copied)]
    out += [('sentinel-gives-error', z3.Implies(s == MIN32, odt_is_error(f, off)))]
    # stated over the offset stored in the result, so that the clauses mean the same at a call site (convertToTimeZone) as at the
    # function's own exit; that this offset is the one the zone reported is the first clause below, proved at the own exit only
    # (it speaks about the call to TimeZone::getUtcOffset made during this call)
    ok = z3.And(s != MIN32, in_range(s, off), off != ERR_OFF)
    out += [('valid-fields', z3.Implies(ok, ldt_valid(f))),
            ('fields-are-utc-fields-shifted-by-offset', z3.Implies(ok, ldt_seconds64(f) == sx(s, 64) + 60 * sx(off, 64)))]
    if c.own:
        o = _offset_from_log(c)
        if o is not None:
            out.append(('offset-is-the-zone-offset-at-that-instant', z3.Implies(s != MIN32, off == o)))
        else:
            out.append(('asked-the-zone', s == MIN32))
    return out


def _zdt_fes_pre(c):
    # the result object and the time zone argument are distinct objects (language guarantee for a returned temporary)
    res, s, tz = c.args
    a, b = c.ex.ptr_to_bv(res), c.ex.ptr_to_bv(tz)
    return [z3.Or(z3.ULE(a + 32, b), z3.ULE(b + 24, a))]


contract('ace_time::ZonedDateTime::forEpochSeconds(int, ace_time::TimeZone const&)', props=['C05'],
         lang_requires=_zdt_fes_pre, ensures=_zdt_fes_post, assigns=lambda c: [(c.args[0], 32)])


def _zdt_tes_post(c):
    f, off = zdt_odt(c.old, c.this)
    return [('instant', c.result == instant_of(f, off))]


contract('ace_time::ZonedDateTime::toEpochSeconds() const', pure=True, props=['C05'], ensures=_zdt_tes_post)


def _zdt_tus_post(c):
    f, off = zdt_odt(c.old, c.this)
    err = odt_is_error(f, off)
    return [('error-sentinel', z3.Implies(err, c.result == MIN32)),
            ('unix-is-epoch-plus-946684800', z3.Implies(z3.Not(err), c.result == instant_of(f, off) + UNIX))]


contract('ace_time::ZonedDateTime::toUnixSeconds() const', pure=True, props=['C05'], ensures=_zdt_tus_post)


def _zdt_cmp_post(c):
    a = instant_of(*zdt_odt(c.old, c.this))
    b = instant_of(*zdt_odt(c.old, c.args[1]))
    r = c.result
    return [('lt', z3.Implies(a < b, r == z3.BitVecVal(-1, 8))), ('gt', z3.Implies(a > b, r == 1)), ('eq', z3.Implies(a == b, r == 0))]


contract('ace_time::ZonedDateTime::compareTo(ace_time::ZonedDateTime const&) const', pure=True, props=['C05'], ensures=_zdt_cmp_post)


def _zdt_convert_post(c):
    res, this, tz = c.args
    f, off = zdt_odt(c.old, this)
    g, off2 = zdt_odt(c.new, res)
    inst = instant_of(f, off)
    # o: the offset of the target zone at that instant, as stored in the result (ZonedDateTime::forEpochSeconds' contract)
    o = off2
    ok = z3.And(z3.Not(odt_is_error(f, off)), in_range(inst, o), o != ERR_OFF)
    # same form as OffsetDateTime::convertToTimeOffset: the local seconds of the result minus its offset are the instant (that
    # toEpochSeconds() of the result then returns it is the lemma 'ZonedDateTime: convertToTimeZone preserves the instant')
    return [('valid-fields', z3.Implies(ok, ldt_valid(g))),
            ('same-instant', z3.Implies(ok, ldt_seconds64(g) - 60 * sx(off2, 64) == sx(inst, 64)))]


def _offset_from_log_nested(c):
    # convertToTimeZone calls ZonedDateTime::forEpochSeconds (contract): its postcondition names the zone offset
    # through the result's offset field, which is what the clause needs
    for e in c.log:
        if e[0] == 'call' and e[1].startswith('ace_time::ZonedDateTime::forEpochSeconds'):
            res = e[2][0]
            from vc.symex import MemView
            return c.new.field(res, ZDT, 'mOffsetDateTime.mTimeOffset.mMinutes')
    return None


contract('ace_time::ZonedDateTime::convertToTimeZone(ace_time::TimeZone const&) const', props=['C05'],
         lang_requires=lambda c: [z3.Or(z3.ULE(c.ex.ptr_to_bv(c.args[0]) + 32, c.ex.ptr_to_bv(c.args[2])), z3.ULE(c.ex.ptr_to_bv(c.args[2]) + 24, c.ex.ptr_to_bv(c.args[0]))),
                             z3.Or(z3.ULE(c.ex.ptr_to_bv(c.args[0]) + 32, c.ex.ptr_to_bv(c.args[1])), z3.ULE(c.ex.ptr_to_bv(c.args[1]) + 32, c.ex.ptr_to_bv(c.args[0])))],
         ensures=_zdt_convert_post, assigns=lambda c: [(c.args[0], 32)])


# ---- lemmas ----------------------------------------------------------------------------------------

@lemma('C05')
def round_trips(ex):
    from vc.symex import MemView
    out = []
    mem = z3.Const('lm_mem', ex.mem_sort)
    s = z3.BitVec('lm_s', 32)
    o = z3.BitVec('lm_o', 16)
    r = z3.BitVec('lm_odt', 64)
    _, p1 = instantiate(ex, 'ace_time::OffsetDateTime::forEpochSeconds(int, ace_time::TimeOffset)', [s, o], result=r)
    this = Ptr(None, z3.BitVec('lm_this', 64))
    mem2 = obj_at(ex, mem, this.off, r)
    back = z3.BitVec('lm_back', 32)
    _, p2 = instantiate(ex, 'ace_time::OffsetDateTime::toEpochSeconds() const', [this], mem_old=mem2, result=back)
    f, off = odt_fields_val(r)
    T = z3.BitVec('lm_T', 64)
    nerr = z3.Implies(ldt_valid(f), z3.Not(ldt_is_error(f)))      # proved in C06 (lemma valid-datetime-implies-not-isError)
    hyp = [in_range(s, o), o != ERR_OFF, nerr]
    out.append(LemmaOb('OffsetDateTime: forEpochSeconds(s, o).toEpochSeconds() == s', p1 + p2 + hyp, back == s,
                       abstract=[(ldt_seconds64(f), T)]))
    ub = z3.BitVec('lm_ub', 32)
    _, p3 = instantiate(ex, 'ace_time::OffsetDateTime::toUnixSeconds() const', [this], mem_old=mem2, result=ub)
    out.append(LemmaOb('OffsetDateTime: toUnixSeconds == toEpochSeconds + 946684800', p1 + p2 + p3 + hyp, ub == back + UNIX,
                       abstract=[(ldt_seconds64(f), T)]))
    # conversion to another offset keeps the instant
    o2 = z3.BitVec('lm_o2', 16)
    r2 = z3.BitVec('lm_odt2', 64)
    _, p4 = instantiate(ex, 'ace_time::OffsetDateTime::convertToTimeOffset(ace_time::TimeOffset) const', [this, o2], mem_old=mem2, result=r2)
    this2 = Ptr(None, z3.BitVec('lm_this2', 64))
    mem3 = obj_at(ex, mem, this2.off, r2)
    back2 = z3.BitVec('lm_back2', 32)
    _, p5 = instantiate(ex, 'ace_time::OffsetDateTime::toEpochSeconds() const', [this2], mem_old=mem3, result=back2)
    g, offg = odt_fields_val(r2)
    T2 = z3.BitVec('lm_T2', 64)
    nerr2 = z3.Implies(ldt_valid(g), z3.Not(ldt_is_error(g)))
    out.append(LemmaOb('OffsetDateTime: convertToTimeOffset preserves the instant',
                       p1 + p2 + p4 + p5 + hyp + [in_range(s, o2), o2 != ERR_OFF, nerr2], back2 == s,
                       abstract=[(ldt_seconds64(f), T), (ldt_seconds64(g), T2)]))
    return out


@lemma('C05')
def zoned_round_trip(ex):
    """for EVERY kind of time zone at once: ZonedDateTime::forEpochSeconds is verified against the contract of
    TimeZone::getUtcOffset ('returns some offset o'), so the round trip holds whatever the processor computes."""
    from vc.symex import MemView
    out = []
    mem0 = z3.Const('lm_mem', ex.mem_sort)
    mem1 = z3.Const('lm_mem1', ex.mem_sort)
    res = Ptr(None, z3.BitVec('lm_res', 64))
    tz = Ptr(None, z3.BitVec('lm_tz', 64))
    s = z3.BitVec('lm_s', 32)
    o = z3.BitVec('lm_o', 16)
    REGS = __import__('contracts.reg', fromlist=['REG']).REG
    from vc.symex import Ctx
    cz = REGS['ace_time::ZonedDateTime::forEpochSeconds(int, ace_time::TimeZone const&)']
    cx = Ctx(ex, None, [res, s, tz], MemView(ex, {}, mem0), new=MemView(ex, {}, mem1))
    cx.ghost = {}
    cx.log = []
    post = [e for _, e in cz.ensures(cx)]        # the clauses a caller sees (own=False): stated over the offset stored in the result
    back = z3.BitVec('lm_back', 32)
    _, p2 = instantiate(ex, 'ace_time::ZonedDateTime::toEpochSeconds() const', [res], mem_old=mem1, result=back)
    f, off = zdt_odt(MemView(ex, {}, mem1), res)
    o = off     # that this is the offset the zone reported is forEpochSeconds' own-exit clause offset-is-the-zone-offset-at-that-instant
    nerr = z3.Implies(ldt_valid(f), z3.Not(ldt_is_error(f)))
    T = z3.BitVec('lm_T', 64)
    out.append(LemmaOb('ZonedDateTime: forEpochSeconds(s, tz).toEpochSeconds() == s for any zone whose offset o keeps s + 60 o in range',
                       post + p2 + [in_range(s, o), o != ERR_OFF, nerr], back == s, abstract=[(ldt_seconds64(f), T)]))
    # conversion to another zone keeps the instant: convertToTimeZone's contract, then toEpochSeconds of the result
    this = Ptr(None, z3.BitVec('lm_zthis', 64))
    tz2 = Ptr(None, z3.BitVec('lm_tz2', 64))
    res2 = Ptr(None, z3.BitVec('lm_res2', 64))
    memA, memB = z3.Const('lm_memA', ex.mem_sort), z3.Const('lm_memB', ex.mem_sort)
    cc = REGS['ace_time::ZonedDateTime::convertToTimeZone(ace_time::TimeZone const&) const']
    cv = Ctx(ex, None, [res2, this, tz2], MemView(ex, {}, memA), new=MemView(ex, {}, memB))
    cv.ghost = {}
    cv.log = []
    pconv = [e for _, e in cc.ensures(cv)]
    fa, offa = zdt_odt(MemView(ex, {}, memA), this)
    gb, offb = zdt_odt(MemView(ex, {}, memB), res2)
    before, after = z3.BitVec('lm_before', 32), z3.BitVec('lm_after', 32)
    _, q1 = instantiate(ex, 'ace_time::ZonedDateTime::toEpochSeconds() const', [this], mem_old=memA, result=before)
    _, q2 = instantiate(ex, 'ace_time::ZonedDateTime::toEpochSeconds() const', [res2], mem_old=memB, result=after)
    nerr_b = z3.Implies(ldt_valid(gb), z3.Not(ldt_is_error(gb)))
    Ta, Tb = z3.BitVec('lm_Ta', 64), z3.BitVec('lm_Tb', 64)
    out.append(LemmaOb('ZonedDateTime: convertToTimeZone preserves the instant',
                       pconv + q1 + q2 + [z3.Not(odt_is_error(fa, offa)), in_range(before, offb), offb != ERR_OFF, nerr_b], after == before,
                       abstract=[(ldt_seconds64(fa), Ta), (ldt_seconds64(gb), Tb)]))
    ub = z3.BitVec('lm_ub', 32)
    _, p3 = instantiate(ex, 'ace_time::ZonedDateTime::toUnixSeconds() const', [res], mem_old=mem1, result=ub)
    out.append(LemmaOb('ZonedDateTime: toUnixSeconds == toEpochSeconds + 946684800',
                       post + p2 + p3 + [in_range(s, o), o != ERR_OFF, nerr], ub == back + UNIX, abstract=[(ldt_seconds64(f), T)]))
    return out
