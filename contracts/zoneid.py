"""C11 -- zone ids: hash_name is djb2, collisions are detected (Python side, pyvc)."""
import os
import z3
from vc import build
from vc.pyvc import PyExec, SymStr, SymItems, SymDict, KeyRef, LoopInv, as_int

TRANSFORMER = os.path.join(build.REPO, 'tools', 'tzdb', 'transformer.py')

# djb2 as a recurrence over the code points of the name (spec): D(0) = 5381, D(i+1) = (33 D(i) + c_i) mod 2^32
D = z3.Function('djb2_prefix', z3.IntSort(), z3.IntSort())


def hash_name_obligations():
    name = SymStr('name')
    i = z3.Int('ax_i')
    axioms = [D(0) == 5381,
              z3.ForAll([i], z3.Implies(z3.And(i >= 0, i < name.n), D(i + 1) == (33 * D(i) + name.codes(i)) % (2 ** 32)), patterns=[D(i + 1)])]
    inv = LoopInv(lambda env, k: [('hash-is-djb2-of-prefix', as_int(env['hash']) == D(k))])
    ex = PyExec(TRANSFORMER, loops={('hash_name', 0): inv})
    paths = ex.run('hash_name', {'name': name}, pre=axioms + [name.n >= 0])
    out = [(n, axioms + [name.n >= 0] + pc, g) for (n, pc, g) in ex.obligations]
    for k, p in enumerate(paths):
        if p.outcome != 'return':
            out.append(('hash_name#no-exception#%d' % k, p.pc, z3.BoolVal(False)))
        else:
            out.append(('hash_name#result-is-djb2#%d' % k, p.pc, as_int(p.value) == D(name.n)))
            out.append(('hash_name#fits-uint32#%d' % k, p.pc + [D(name.n) >= 0], z3.And(as_int(p.value) >= 0, as_int(p.value) < 2 ** 32)))
    return out, len(paths)


H = z3.Function('hash_of_item', z3.IntSort(), z3.IntSort())   # hash_name(key of item i), by the contract of hash_name


def collision_obligations():
    """_detect_hash_collisions: returns normally only if the hashes of all zone names are pairwise distinct."""
    items = SymItems('zones_map')

    def inv(env, k):
        hs = next((v for v in env.values() if isinstance(v, SymDict)), None)    # the dict of hashes seen so far, whatever its name
        if hs is None:
            return [('a-dict-of-seen-hashes-exists', z3.BoolVal(False))]
        a, b, h = z3.Ints('q_a q_b q_h')
        return [('seen-hashes-are-distinct', z3.ForAll([a, b], z3.Implies(z3.And(0 <= a, a < b, b < k), H(a) != H(b)))),
                ('every-seen-hash-is-recorded', z3.ForAll([a], z3.Implies(z3.And(0 <= a, a < k), z3.Select(hs.arr, H(a)) != SymDict.ABSENT), patterns=[H(a)])),
                ('recorded-hashes-were-seen', z3.ForAll([h], z3.Implies(z3.Select(hs.arr, h) != SymDict.ABSENT,
                                                                       z3.And(0 <= z3.Select(hs.arr, h), z3.Select(hs.arr, h) < k, H(z3.Select(hs.arr, h)) == h)),
                                                       patterns=[z3.Select(hs.arr, h)]))]

    def hash_model(ex, args, pc):
        k = args[0]
        if not isinstance(k, KeyRef):
            raise Exception('hash_name on an untracked value')
        return H(k.i)
    ex = PyExec(TRANSFORMER, loops={('_detect_hash_collisions', 0): LoopInv(inv)}, models={'hash_name': hash_model})
    paths = ex.run('Transformer._detect_hash_collisions', {'self': None, 'zones_map': items}, pre=[items.n >= 0])
    out = list(ex.obligations)
    a, b = z3.Ints('r_a r_b')
    n_ret = 0
    for k, p in enumerate(paths):
        if p.outcome == 'return':
            n_ret += 1
            out.append(('_detect_hash_collisions#normal-return-implies-pairwise-distinct#%d' % k, p.pc,
                        z3.ForAll([a, b], z3.Implies(z3.And(0 <= a, a < b, b < items.n), H(a) != H(b)))))
    # a raise must be justified by an actual collision
    for k, p in enumerate(paths):
        if p.outcome == 'raise':
            out.append(('_detect_hash_collisions#raises-only-on-a-real-collision#%d' % k, p.pc,
                        z3.Exists([a, b], z3.And(0 <= a, a < b, b < items.n, H(a) == H(b)))))
    out.append(('cover:_detect_hash_collisions-can-return', None, z3.BoolVal(n_ret > 0)))
    return out, len(paths)
