"""C01 -- extended zones: offset, DST flag and abbreviation equal the TZ rules at every instant
(exploration: leaf contracts proved; end-to-end equality with zic by a bounded stand-in)."""
from vc import check
from . import common, zonescommon as zc
from rtc import runner

LEAVES = [
    'ace_time::internal::timeCodeToMinutes(unsigned char, unsigned char)', 'ace_time::internal::toSuffix(unsigned char)',
    'ace_time::extended::toDeltaMinutes(signed char)', 'ace_time::extended::toOffsetMinutes(signed char, signed char)',
    'ace_time::BasicZoneProcessor::calcStartDayOfMonth(short, unsigned char, unsigned char, signed char)',
]


def run(R):
    common.load_ir(R)
    names = common.names_for(R, 'C01') + LEAVES + [n for n in R.reg.REG if n.startswith('ace_time::extended::Zone') and n.endswith('() const') and 'Broker::' in n]
    names = list(dict.fromkeys(names))
    obs = check.verify_functions(R, names)
    obs += common.avr_pass(R, names)
    check.discharge(R, obs, timeout=120)
    # bounded stand-in: the real extended processor against zic at every probed instant of 2000..2049
    orc = zc.oracles(R)
    exe = zc.harness(False)
    step = zc.step_for(R)
    res = runner.run_sliced(exe, ['c01', 'zonedbx', orc['zonedbx']['path']], runner.SIZES['zonedbx'], [str(step)], timeout=6000)
    problems = zc.record(R, 'zonedbx through ExtendedZoneProcessor vs zic', 'all 387 zones x {every oracle transition -1d..+1d at 13 offsets, every %d s of 2000..2049}' % step, res,
                         'one evaluation = offset + DST flag + abbreviation (+ ZonedDateTime fields on a subset) at one instant; distinct = zone transitions probed',
                         [dict(zone='America/Los_Angeles', instant='2000-04-02T10:00:00Z -1s/+0s', oracle='PST -28800 / PDT -25200')])
    problems += zc.abbrev_run(R, 'extended')
    if problems:
        zc.violation(R, 'c01', problems, 'rtc/zones c01 zonedbx <oracle> <zlo> <zhi> %d' % step)
    R.assumptions += [
        'BOUNDED (never counted as proved): getUtcOffset/getDeltaOffset/getAbbrev(t) == zic(t) is evaluated on the real code; quick tier: every transition neighbourhood + one instant per day; thorough tier: every minute of 2000..2049 (exhaustive given piecewise constancy with minute-aligned breakpoints)',
        'oracle: Debian zic 2.36 on the Zone/Rule lines recorded beside the table entries (eras ending before 1999 are not in the tables; synthetic Anchor rules skipped), read back with zdump -v -c 1999,2051',
        'out of reach of the contracts: that findMatches -> findTransitions -> fixTransitionTimes -> generateStartUntilTimes -> calcAbbreviations compute the zic transition set for arbitrary zone data',
    ]
    return check.finish(R, 'exploration',
        'Leaf contracts (decoders, extended brokers, calcStartDayOfMonth, getMostRecentPriorYear, calcInteriorYears, '
        'compareTransitionToMatchFuzzy, normalizeDateTuple, TransitionStorage::findTransition) are PROVED from the IR; the '
        'end-to-end statement is decided by the bounded stand-in on the real processor against zic.')
