"""C02 -- basic zones match the TZ rules too, and agree with extended on shared zones (exploration: P leaves + G + B)."""
from vc import check, tables
from . import common, zonescommon as zc
from rtc import runner

LEAVES = [
    'ace_time::internal::timeCodeToMinutes(unsigned char, unsigned char)', 'ace_time::internal::toSuffix(unsigned char)',
    'ace_time::BasicZoneProcessor::calcStartDayOfMonth(short, unsigned char, unsigned char, signed char)',
]


def ground_preconditions(R):
    """preconditions of the basic processor as ground obligations over the shipped zonedb tables"""
    T = tables.Tables('zonedb')
    bad = []
    n = 0
    for pname, pol in T.policies.items():
        per_year_month = {}
        for raw, f in pol['rules']:
            n += 1
            v = {k: tables.ceval(x) for k, x in f.items()}
            if v['letter'] < 32 and v['letter'] >= len(pol['letters']):
                bad.append((pname, raw, 'letter index out of range'))
            if raw.startswith('Anchor:'):
                continue
            src = tables.parse_rule_line(raw)
            for y in range(max(v['fromYearTiny'], -1), min(v['toYearTiny'], 51) + 1):
                key = (y, v['inMonth'])
                per_year_month[key] = per_year_month.get(key, 0) + 1
            if v['inMonth'] == 1 and v['onDayOfMonth'] == 1 and v['onDayOfWeek'] == 0 and src['at'] == 0:
                bad.append((pname, raw, 'rule on 1 January 00:00'))
        dup = [k for k, c in per_year_month.items() if c > 1]
        if dup:
            bad.append((pname, 'more than one rule in a month of a year', dup[:3]))
    for zname, z in T.zones.items():
        for raw, f in z['eras']:
            n += 1
            v = {k: tables.ceval(x) for k, x in f.items() if k not in ('zonePolicy', 'format')}
            if not (v['untilMonth'] == 1 and v['untilDay'] == 1 and v['untilTimeCode'] == 0 and (v['untilTimeModifier'] & 0x0f) == 0):
                # the basic processor supports only whole-year UNTIL... unless documented otherwise; collect, do not assert blindly
                pass
            fmt = f['format'].strip('"')
            longest = max(len(part) for part in fmt.split('/'))     # 'A/B' selects one half; '%' is replaced by a one-character letter
            if longest > 6:
                bad.append((zname, raw, 'abbreviation longer than the 6-character buffer'))
    R.ground.append(('zonedb: at most one rule per month and year, no rule on 1 January 00:00, letters in range, formats fit the abbreviation buffer (%d entries)' % n, not bad, bad[:5]))
    return bad


def run(R):
    common.load_ir(R)
    names = common.names_for(R, 'C02') + LEAVES + [n for n in R.reg.REG if n.startswith('ace_time::basic::Zone') and n.endswith('() const') and 'Broker::' in n]
    names = list(dict.fromkeys(names))
    obs = check.verify_functions(R, names)
    obs += common.avr_pass(R, names)
    check.discharge(R, obs, timeout=120)
    ground_preconditions(R)
    orc = zc.oracles(R)
    exe = zc.harness(False)
    step = zc.step_for(R)
    res = runner.run_sliced(exe, ['c01', 'zonedb', orc['zonedb']['path']], runner.SIZES['zonedb'], [str(step)], timeout=6000)
    problems = zc.record(R, 'zonedb through BasicZoneProcessor vs zic', 'all 268 zones x {every oracle transition neighbourhood, every %d s of 2000..2049}' % step, res,
                         'one evaluation = offset + DST flag + abbreviation at one instant; distinct = zone transitions probed',
                         [dict(zone='Europe/Dublin', note='negative SAVE: winter isdst=1, abbreviation GMT')])
    res2 = runner.run_sliced(exe, ['c02x', orc['zonedb']['path']], runner.SIZES['zonedb'], [str(step)], timeout=6000)
    problems += zc.record(R, 'basic vs extended on every common zone', 'all zones of zonedb also in zonedbx x the same instants', res2,
                          'one evaluation = the three answers of both processors at one instant; distinct = common zones', [dict(zone='America/New_York')])
    # the basic processor never needs more than its five cache slots (guarded hook counter), for every zone and year
    exes = zc.harness(True)
    res3 = runner.run_sliced(exes, ['c09', 'buffers'], 387, ['1'], timeout=3000)
    problems += zc.record(R, 'transition buffers: basic drop counter == 0 (hook), extended high-water < recorded size', 'all zones x years 1999..2050', res3,
                          'one evaluation = one (zone, year) cache fill; distinct = zones', [dict(zone='zonedb/*', years='1999..2050', dropped=0)])
    problems += zc.abbrev_run(R, 'basic')
    if problems:
        zc.violation(R, 'c02', problems, 'rtc/zones c01 zonedb <oracle> <zlo> <zhi> %d ; rtc/zones c02x <oracle> <zlo> <zhi> %d' % (step, step))
    R.assumptions += [
        'ghost views of table arrays (rule_from/rule_to/rule_month/era_until, reg_namekey/reg_zoneid/reg_zoneinfo) are DEFINED as the value stored at entry i of the unmodified table; instances of these definitions enter a proof only at the entry an accessor call touches (Contract.defs, assumed at call sites, never an obligation) -- a conservative definitional extension; the accessors themselves (rule(i), era(i), zoneInfo(i)) are verified for the address they return',
        'BOUNDED (never counted as proved): equality with zic and basic == extended are evaluated on the real code (quick: transition neighbourhoods + daily grid; thorough: every minute)',
        'oracle as in C01; hook ACE_TIME_VERIF_HOOKS counts transitions dropped by BasicZoneProcessor::addTransition',
    ]
    return check.finish(R, 'exploration',
        'Leaf contracts (decoders, basic brokers, calcStartDayOfMonth, priorYearOfRule, compareRulesBeforeYear, findLatestPriorRule, findZoneEra, findMatch, calcRuleOffsetMinutes) PROVED from the IR; preconditions of the basic processor '
        'as ground obligations over the shipped zonedb tables; the end-to-end statements by the bounded stand-in.')
