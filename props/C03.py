"""C03 -- the TZ compiler preserves semantics end to end; unsupported zones are reported (other: P parts + B)."""
import ast
import importlib.util
import json
import multiprocessing as mp
import os
import re
import subprocess
import sys
import z3
from vc import check, symex, build, tables
from vc.pyvc import PyExec, PyOutOfReach, Record, as_int, as_bool
from . import common, zonescommon as zc
from rtc import oracle, pyzones

HERE = os.path.dirname(os.path.dirname(os.path.abspath(__file__)))
TRANSFORMER = os.path.join(build.REPO, 'tools', 'tzdb', 'transformer.py')
TZC = os.path.join(build.REPO, 'tools', 'tzcompiler.py')
EMPTY = ['antarctica', 'asia', 'australasia', 'backward', 'etcetera', 'europe', 'northamerica', 'southamerica']


# ---------------------------------------------------------------------------------------------------- P (pyvc)
def numeric_obligations():
    out = []
    s = z3.Int('n_seconds')
    ex = PyExec(TRANSFORMER)
    for k, p in enumerate(ex.run('seconds_to_hms', {'seconds': s}, pre=[s >= 0, s <= 10**7])):
        h, m, sec = (as_int(x) for x in p.value)
        out.append(('py:seconds_to_hms#ranges#%d' % k, p.pc, z3.And(h >= 0, m >= 0, m < 60, sec >= 0, sec < 60)))
        out.append(('py:seconds_to_hms#recomposes#%d' % k, p.pc, (h * 60 + m) * 60 + sec == s))
    h, m, sec = z3.Ints('n_h n_m n_s')
    for k, p in enumerate(PyExec(TRANSFORMER).run('hms_to_seconds', {'h': h, 'm': m, 's': sec})):
        out.append(('py:hms_to_seconds#value#%d' % k, p.pc, as_int(p.value) == 3600 * h + 60 * m + sec))
    a = z3.Int('n_a')
    for b in (60, 900):
        for k, p in enumerate(PyExec(TRANSFORMER).run('truncate_to_granularity', {'a': a, 'b': b}, pre=[a >= -10**6, a <= 10**6])):
            v = as_int(p.value)
            mag = z3.If(a < 0, -a, a)
            out.append(('py:truncate_to_granularity[%d]#toward-zero-multiple#%d' % (b, k), p.pc,
                        z3.And(v % b == 0, z3.If(a < 0, z3.And(v >= a, v - a < b, v <= 0), z3.And(v <= a, a - v < b, v >= 0)), v == z3.If(a < 0, -(mag / b) * b, (mag / b) * b))))
    y = z3.Int('n_year')
    consts = dict(PyExec(os.path.join(build.REPO, 'tools', 'tzdb', 'extractor.py')).consts)
    for k, p in enumerate(PyExec(TRANSFORMER, consts=consts).run('is_year_tiny', {'year': y})):
        v = as_bool(p.value)
        out.append(('py:is_year_tiny#spec#%d' % k, p.pc, v == z3.And(y >= 1872, z3.Or(y == consts['MAX_YEAR'], y <= 2127))))
    return out, consts


def out_of_bounds_filter_obligation(consts):
    """_remove_rules_out_of_bounds: the rejection test, located in the real source by its reason string, must fire whenever
    FROM or TO does not fit the table's year field"""
    src = open(TRANSFORMER).read()
    tree = ast.parse(src)
    fn = next(n for n in ast.walk(tree) if isinstance(n, ast.FunctionDef) and n.name == '_remove_rules_out_of_bounds')
    tests = [n.test for n in ast.walk(fn) if isinstance(n, ast.If) and 'out of bounds' in ''.join(ast.unparse(b) for b in n.body)]
    if len(tests) != 1:
        raise PyOutOfReach('out-of-bounds rejection test not found (%d candidates)' % len(tests))
    fy, ty = z3.Ints('r_from r_to')
    ex = PyExec(TRANSFORMER, consts=consts)
    ex._loop_ord = {}
    ex.cur_fn = 'filter'
    vals = ex._eval(tests[0], {'from_year': fy, 'to_year': ty}, [], 'filter', 0)
    fires = z3.Or([z3.And(p + [as_bool(v)]) if p else as_bool(v) for p, v in vals])
    tiny = lambda v: z3.And(v >= 1872, z3.Or(v == consts['MAX_YEAR'], v <= 2127))
    return [('py:_remove_rules_out_of_bounds#rejects-every-rule-whose-FROM-or-TO-does-not-fit', [fy >= 0, ty >= 0], fires == z3.Not(z3.And(tiny(fy), tiny(ty))))], ast.unparse(tests[0])


def _extract_if(fn_name, pick):
    src = open(TRANSFORMER).read()
    tree = ast.parse(src)
    fn = next(n for n in ast.walk(tree) if isinstance(n, ast.FunctionDef) and n.name == fn_name)
    tests = [n.test for n in ast.walk(fn) if isinstance(n, ast.If) and pick(n)]
    if len(tests) != 1:
        raise PyOutOfReach('%s: expected one matching test, found %d' % (fn_name, len(tests)))
    return tests[0]


def _eval_test(test, env, consts):
    ex = PyExec(TRANSFORMER, consts=consts)
    ex._loop_ord = {}
    ex.cur_fn = 'test'
    vals = ex._eval(test, env, [], 'test', 0)
    return z3.Or([z3.And(p + [as_bool(v)]) if p else as_bool(v) for p, v in vals])


def year_window_obligations(consts):
    """the year tests that decide which rules and eras are kept, against what they are documented to mean"""
    out = []
    body_has = lambda text: (lambda n: text in ''.join(ast.unparse(b) for b in n.body))
    # find_matching_rules: kept iff the rule's years [from, to] and the era's years [era_from, era_until) have a year in common
    f, t, ef, eu, y = z3.Ints('m_from m_to m_era_from m_era_until m_y')
    test = _extract_if('find_matching_rules', body_has('matches.append'))
    kept = _eval_test(test, {'rule': Record({'fromYear': f, 'toYear': t}), 'era_from': ef, 'era_until': eu}, consts)
    common = z3.Exists([y], z3.And(f <= y, y <= t, ef <= y, y < eu))
    out.append(('py:find_matching_rules#kept-iff-rule-years-and-era-years-share-a-year', [f <= t, ef < eu], kept == common))
    # _remove_zone_eras_too_old: kept iff the era ends in or after the year before start_year
    u, sy, uy, prev = z3.Ints('e_until e_start_year e_until_year e_prev_until')
    me = Record({'start_year': sy, 'until_year': uy})
    test = _extract_if('_remove_zone_eras_too_old', body_has('keep_eras.append'))
    kept = _eval_test(test, {'era': Record({'untilYear': u}), 'self': me}, consts)
    out.append(('py:_remove_zone_eras_too_old#kept-iff-the-era-can-be-in-effect-from-the-year-before-start_year-on', [], kept == z3.Exists([y], z3.And(y >= sy - 1, y <= u))))
    # _remove_zone_eras_too_new: kept iff the era starts (UNTIL year of its predecessor) no later than until_year + 1
    test = _extract_if('_remove_zone_eras_too_new', body_has('keep_eras.append'))
    kept = _eval_test(test, {'start_year': prev, 'self': me}, consts)
    out.append(('py:_remove_zone_eras_too_new#kept-iff-the-era-starts-by-until_year-plus-one', [], kept == z3.Exists([y], z3.And(y >= prev, y <= uy + 1))))
    return out


def replay_filter(R, o):
    """run the real Transformer._remove_rules_out_of_bounds on one policy whose only rule carries the model's FROM / TO"""
    if '_remove_rules_out_of_bounds' not in o.name or not o.model:
        return None
    fy, ty = int(o.model.get('r_from', 2000)), int(o.model.get('r_to', 2000))
    code = r"""
import sys, json, logging
logging.disable(logging.CRITICAL)
sys.path.insert(0, %r)
from tzdb.transformer import Transformer
t = Transformer({}, {}, {}, 'extended', 2000, 2050, 60, 60, False)
kept = t._remove_rules_out_of_bounds({'P': [{'fromYear': %d, 'toYear': %d}]})
print(json.dumps(dict(kept=sorted(kept), removed=sorted(t.all_removed_policies))))
""" % (os.path.join(build.REPO, 'tools'), fy, ty)
    p = subprocess.run(['/venv/bin/python', '-c', code], capture_output=True, text=True)
    if p.returncode:
        return False, dict(error=p.stderr[-400:])
    j = json.loads(p.stdout.strip().split('\n')[-1])
    fits = lambda y: y >= 1872 and (y == 9999 or y <= 2127)
    should_keep = fits(fy) and fits(ty)
    bad = ('P' in j['kept']) != should_keep
    return bad, dict(rule=dict(fromYear=fy, toYear=ty), fits_in_table_year_field=should_keep, real_code=j,
                     how='Transformer(...)._remove_rules_out_of_bounds({"P": [rule]}) under /venv/bin/python')


# ---------------------------------------------------------------------------------------------------- B
def compile_source(indir, outdir, scope, language, tzv='verif'):
    os.makedirs(outdir, exist_ok=True)
    cmd = ['/venv/bin/python', TZC, '--input_dir', indir, '--output_dir', outdir, '--tz_version', tzv, '--action', 'zonedb',
           '--language', language, '--scope', scope, '--start_year', '2000', '--until_year', '2050']
    r = subprocess.run(cmd, capture_output=True, text=True, cwd=outdir)
    return r.returncode, r.stdout + r.stderr


def make_input(indir, main_text, backward_text=''):
    os.makedirs(indir, exist_ok=True)
    with open(os.path.join(indir, 'africa'), 'w') as f:
        f.write(main_text)
    for n in EMPTY:
        with open(os.path.join(indir, n), 'w') as f:
            f.write(backward_text if n == 'backward' else '')


def strip_comments(text):
    """the C++ token content of a generated file: block comments, line comments (also trailing ones) and layout removed"""
    text = re.sub(r'/\*.*?\*/', ' ', text, flags=re.S)
    out = []
    for line in text.split('\n'):
        # a trailing // comment (none of the generated string literals contains //)
        s = re.sub(r'//.*$', '', line).strip()
        if not s:
            continue
        out.append(re.sub(r'\s+', ' ', s))
    return out


def regenerate_and_compare(R, scratch):
    """B1: the compiler run on the Zone/Rule lines recorded beside the shipped entries reproduces the shipped tables"""
    problems = []
    ev = 0
    for db, scope in (('zonedb', 'basic'), ('zonedbx', 'extended')):
        T = tables.Tables(db)
        src = os.path.join(scratch, db + '_lines.txt')
        oracle.write_source(T, src)
        hdr = open(os.path.join(T.dir, 'zone_infos.h')).read()
        links = ''.join('Link\t%s\t%s\n' % (tn, ln) for ln, tn in re.findall(r'kZone\w+; // (\S+) -> (\S+)', hdr))
        indir = os.path.join(scratch, db + '_in')
        make_input(indir, open(src).read(), links)
        outdir = os.path.join(scratch, db + '_out')
        rc, log = compile_source(indir, outdir, scope, 'arduino', T.tz_version)
        if rc != 0:
            problems.append('%s: compiler failed on the recorded lines: %s' % (db, log[-400:]))
            continue
        for fn in ('zone_infos.cpp', 'zone_policies.cpp', 'zone_registry.cpp', 'zone_infos.h', 'zone_policies.h', 'zone_registry.h'):
            a = strip_comments(open(os.path.join(outdir, fn)).read())
            b = strip_comments(open(os.path.join(T.dir, fn)).read())
            ev += len(b)
            if a != b:
                import difflib
                d = [x for x in difflib.unified_diff(b, a, 'shipped/' + fn, 'regenerated/' + fn, lineterm='', n=0)][:12]
                problems.append('%s/%s: regenerated table differs from the shipped one: %s' % (db, fn, ' | '.join(d)))
    R.bounded.append(dict(name='regeneration of the shipped tables from the recorded Zone/Rule lines (both scopes, arduino target)',
                          bound='the 2020d lines recorded beside the 268 + 387 shipped zones; all non-comment lines of the six generated files per scope compared',
                          evaluations=ev, distinct_nontrivial=12, rule='one evaluation per compared non-comment line; distinct = generated files',
                          samples=[dict(file='zonedbx/zone_policies.cpp', result='identical')] + [dict(problem=p[:300]) for p in problems[:2]]))
    return problems


def _accounting_script(indir, scope):
    return r"""
import sys, json, logging
logging.disable(logging.CRITICAL)
sys.path.insert(0, %r)
from tzdb.extractor import Extractor
from tzdb.transformer import Transformer
e = Extractor(%r); e.parse()
rules_map, zones_map, links_map = e.get_data()
inz, inl = sorted(zones_map), sorted(links_map)
t = Transformer(zones_map, rules_map, links_map, %r, 2000, 2050, 60, 900 if %r == 'basic' else 60, False)
t.transform()
d = t.get_data()
print(json.dumps(dict(input_zones=inz, input_links=inl, zones=sorted(d[0]), links=sorted(d[2]),
                      removed_zones={k: sorted(v) for k, v in d[3].items()}, removed_links={k: sorted(v) for k, v in d[5].items()},
                      notable_zones={k: sorted(v) for k, v in d[6].items()}, notable_policies={k: sorted(v) for k, v in d[7].items()},
                      zone_policies={z: sorted({e['rules'] for e in eras if e['rules'] not in ('-', ':')}) for z, eras in d[0].items()})))
""" % (os.path.join(build.REPO, 'tools'), indir, scope, scope)


_NOTES = {}


def notes_for(scratch, src_text):
    """run extractor + transformer (both scopes) on a source once; returns {scope: dict | error string}; the dict has the input /
    emitted / removed names, and 'trunc': zones carrying a documented truncation note (on the zone or on a policy it uses)"""
    import hashlib
    key = hashlib.sha1(src_text.encode()).hexdigest()[:12]
    if key in _NOTES:
        return _NOTES[key]
    indir = os.path.join(scratch, 'acc_' + key)
    make_input(indir, src_text)
    res = {}
    for scope in ('basic', 'extended'):
        p = subprocess.run(['/venv/bin/python', '-c', _accounting_script(indir, scope)], capture_output=True, text=True)
        if p.returncode:
            res[scope] = 'transformer failed: ' + p.stderr[-300:]
            continue
        j = json.loads(p.stdout.strip().split('\n')[-1])
        tr = {z for z, rs in j['notable_zones'].items() if any('truncated' in r for r in rs)}
        trp = {pn for pn, rs in j['notable_policies'].items() if any('truncated' in r for r in rs)}
        tr |= {z for z, ps in j['zone_policies'].items() if set(ps) & trp}
        j['trunc'] = tr
        res[scope] = j
    _NOTES[key] = res
    return res


def accounting(R, scratch, src_text, label):
    """every input zone and link is either emitted or listed as removed with a reason"""
    problems = []
    ev = 0
    for scope, j in notes_for(scratch, src_text).items():
        if isinstance(j, str):
            problems.append('%s/%s: %s' % (label, scope, j))
            continue
        for kind, inp, outp, rem in (('zone', j['input_zones'], j['zones'], j['removed_zones']), ('link', j['input_links'], j['links'], j['removed_links'])):
            for n in inp:
                ev += 1
                emitted, removed = n in outp, n in rem and len(rem[n]) > 0
                if emitted == removed:
                    problems.append('%s/%s: %s %s is %s' % (label, scope, kind, n, 'both emitted and removed' if emitted else 'silently dropped (neither emitted nor listed as removed with a reason)'))
    return ev, problems


def semantic_run(R, scratch, src_text, zones, label, combos):
    """extractor -> transformer -> python generator on a source; the emitted tables interpreted by ZoneSpecifier must equal zic"""
    indir = os.path.join(scratch, label + '_in')
    make_input(indir, src_text)
    outdir = os.path.join(scratch, label + '_py')
    rc, log = compile_source(indir, outdir, 'extended', 'python')
    if rc != 0:
        return 0, 0, ['%s: compiler failed: %s' % (label, log[-400:])], indir
    open(os.path.join(outdir, '__init__.py'), 'w').close()
    pkg = label + '_py'
    sys.path.insert(0, scratch)
    try:
        zi = importlib.import_module(pkg + '.zone_infos')
        infos = dict(zi.ZONE_INFO_MAP)
    finally:
        sys.path.remove(scratch)
    srcfile = os.path.join(indir, 'africa')
    nt = notes_for(scratch, src_text).get('extended')
    trunc = nt['trunc'] if isinstance(nt, dict) else set()
    emitted = [z for z in zones if z in infos and z not in trunc]
    orc = oracle.oracle_for_source(srcfile, scratch, emitted, tag=label)
    ev, dist, fails = pyzones.worker((os.path.join(build.REPO, 'tools'), infos, orc, combos, 1, {}))
    return ev, dist, fails, indir


def cpp_run(R, scratch, src_text, label):
    """arduino target: both scopes generated from the source, compiled in place of the shipped tables, and run through the real
    C++ processors (rtc/zones.cpp, mode c01) against zic on the same source"""
    from rtc import native
    indir = os.path.join(scratch, label + '_cin')
    make_input(indir, src_text)
    gen = os.path.join(scratch, label + '_gen')
    emitted = {}
    for scope, ns in (('basic', 'zonedb'), ('extended', 'zonedbx')):
        out = os.path.join(gen, 'ace_time', ns)
        rc, log = compile_source(indir, out, scope, 'arduino')
        if rc != 0:
            return 0, 0, ['%s: compiler (arduino, %s) failed: %s' % (label, scope, log[-400:])]
        reg = open(os.path.join(out, 'zone_registry.cpp')).read()
        body = reg[reg.index('kZoneRegistry['):]
        emitted[ns] = re.findall(r'&kZone(\w+), // (\S+)', body)
    try:
        exe = native.build_custom_db('zones', gen, label)
    except RuntimeError as e:
        return 0, 0, ['%s: generated tables do not build: %s' % (label, str(e)[-600:])]
    ev = dist = 0
    fails = []
    for ns in ('zonedb', 'zonedbx'):
        names = [n for _, n in emitted[ns]]
        if not names:
            continue
        nt = notes_for(scratch, src_text).get('basic' if ns == 'zonedb' else 'extended')
        trunc = nt['trunc'] if isinstance(nt, dict) else set()
        orc = oracle.oracle_for_source(os.path.join(indir, 'africa'), scratch, names, tag=label + ns)
        path = os.path.join(scratch, '%s_%s.oracle' % (label, ns))
        with open(path, 'w') as f:
            for n, segs in orc:
                f.write('Z %s %d %d %d %s\n' % (n, len(segs) - 1, segs[0][1], segs[0][2], segs[0][3]))
                for (t, off, dst, ab) in segs[1:]:
                    f.write('T %d %d %d %s\n' % (t, off, dst, ab))
        for zi, zn in enumerate(names):
            if zn in trunc:
                continue            # carries a documented truncation note: excepted from the comparison by the property
            rc, out, err = native.run(exe, ['c01', ns, path, str(zi), str(zi + 1), '86400'], timeout=600)
            for line in out.split('\n'):
                if line.startswith('FAIL'):
                    fails.append('C++ %s (generated from %s): %s' % (ns, label, line[5:].strip()))
                elif line.startswith('SUMMARY'):
                    j = json.loads(line[8:])
                    ev += j['evaluations']
                    dist += j['distinct']
            if rc not in (0, 1):
                fails.append('C++ %s harness on generated tables exited %s: %s' % (ns, rc, err[-300:]))
    return ev, dist, fails


def time_string_bounded():
    """bounded: transformer.time_string_to_seconds on every '[-]h[:mm[:ss]]' with h 0..26, mm/ss in {0,1,15,30,59,60} against the zic reading"""
    code = r"""
import sys, json
sys.path.insert(0, %r)
from tzdb.transformer import time_string_to_seconds, INVALID_SECONDS
bad = []; n = 0
vals = [0, 1, 15, 30, 59, 60]
for sign in ('', '-'):
    for h in range(0, 27):
        forms = [(str(h), h, 0, 0)] + [('%%d:%%02d' %% (h, m), h, m, 0) for m in vals] + [('%%d:%%02d:%%02d' %% (h, m, s), h, m, s) for m in vals for s in vals]
        for text, hh, mm, ss in forms:
            n += 1
            got = time_string_to_seconds(sign + text)
            want = INVALID_SECONDS if (hh > 25 or mm > 59 or ss > 59) else (-1 if sign else 1) * (hh * 3600 + mm * 60 + ss)
            if got != want and len(bad) < 5: bad.append((sign + text, got, want))
print(json.dumps(dict(n=n, bad=bad)))
""" % os.path.join(build.REPO, 'tools')
    p = subprocess.run(['/venv/bin/python', '-c', code], capture_output=True, text=True)
    j = json.loads(p.stdout.strip().split('\n')[-1]) if p.returncode == 0 else dict(n=0, bad=[('crash', p.stderr[-300:], '')])
    return j['n'], ['time_string_to_seconds(%r) = %r, zic reads %r' % tuple(b) for b in j['bad']]


def run(R):
    common.load_ir(R)
    obs = []
    try:
        nums, consts = numeric_obligations()
        filt, test_src = out_of_bounds_filter_obligation(consts)
        filt = filt + year_window_obligations(consts)
        R.functions['tools/tzdb/transformer.py:{find_matching_rules,_remove_zone_eras_too_old,_remove_zone_eras_too_new} (year tests)'] = dict(engine='pyvc (expression extraction)')
        R.functions['tools/tzdb/transformer.py:{seconds_to_hms,hms_to_seconds,truncate_to_granularity,div_to_zero,is_year_tiny}'] = dict(generated=len(nums), engine='pyvc')
        R.functions['tools/tzdb/transformer.py:Transformer._remove_rules_out_of_bounds (rejection test)'] = dict(test=test_src, engine='pyvc (expression extraction)')
        for name, pc, goal in nums + filt:
            obs.append(symex.Obligation(name, 'post', name.split('#')[0], None, list(pc), goal, {'no_entry_state': True}))
    except PyOutOfReach as e:
        R.out_of_reach.append(('tools/tzdb/transformer.py', str(e)))
    R.custom_replay = replay_filter
    check.discharge(R, obs, timeout=60)
    scratch = os.path.join(build.scratch(), 'c03')
    os.makedirs(scratch, exist_ok=True)
    problems = regenerate_and_compare(R, scratch)
    # semantics on the synthetic source (corner values inside the documented feature set)
    syn = open(os.path.join(HERE, 'rtc', 'tzsrc', 'synthetic')).read()
    syn_zones = re.findall(r'^Zone\s+(\S+)', syn, re.M)
    combos = [(14, True, True), (13, False, False)]
    ev, dist, fails, syn_in = semantic_run(R, scratch, syn, syn_zones, 'synthetic', combos)
    problems += fails
    uns = open(os.path.join(HERE, 'rtc', 'tzsrc', 'synthetic_unsupported')).read()
    uns_zones = re.findall(r'^Zone\s+(\S+)', uns, re.M)
    e_u, d_u, f_u, uns_in = semantic_run(R, scratch, uns, uns_zones, 'unsupported', combos[:1])
    ev += e_u
    dist += d_u
    problems += f_u
    cev = cdist = 0
    cfails = []
    for lbl, text in (('syncpp', syn), ('unscpp', uns)):
        a, b, c = cpp_run(R, scratch, text, lbl)
        cev += a
        cdist += b
        cfails += c
    problems += cfails
    R.bounded.append(dict(name='arduino target: tables generated from the synthetic sources (both scopes) compiled in place of the shipped ones and run through the real C++ processors vs zic',
                          bound='synthetic corner-value source and synthetic partly-unsupported source; every zone emitted in either scope; every transition neighbourhood and a daily grid 2000..2049',
                          evaluations=cev, distinct_nontrivial=cdist, rule='one evaluation = (offset, DST flag, abbreviation) at one instant; distinct = transitions of the oracle',
                          samples=[dict(zone='Syn/MinusQuarter', scope='extended')] + [dict(fail=f[:300]) for f in cfails[:3]]))
    # seeded mutations of the synthetic source that stay inside the feature set: shifted offsets / SAVE values / AT times
    import random
    rnd = random.Random(R.seed)
    nmut = 6 if R.tier == 'quick' else 40
    ev_mut_acc = 0
    for k in range(nmut):
        text = syn
        off = rnd.choice(['-0:45', '-0:01', '0:20', '-11:30', '13:45', '-3:30'])
        text = text.replace('Zone Syn/MinusHalf\t-0:30\t-\t-0030', 'Zone Syn/MinusHalf\t%s\t-\tLMT' % off)
        save = rnd.choice(['0:30', '1:00', '2:00', '0:20'])
        text = text.replace('Mar\tFri<=7\t24:00\t0:30\tH', 'Mar\tFri<=%d\t%s\t%s\tH' % (rnd.choice([7, 14, 21]), rnd.choice(['24:00', '23:00', '0:00', '2:30']), save))
        e2, d2, f2, mut_in = semantic_run(R, scratch, text, syn_zones, 'mut%d' % k, combos[:1])
        ea, fa = accounting(R, scratch, text, 'mut%d' % k)
        ev_mut_acc += ea
        f2 = f2 + fa
        ev += e2
        dist += d2
        problems += f2
    R.bounded.append(dict(name='extractor -> transformer -> python generator -> ZoneSpecifier vs zic on the same source',
                          bound='synthetic corner-value source (9 zones), synthetic partly-unsupported source (14 zones) + %d seeded mutations; extended scope, python target; every transition -1s/0/+1s and 4 instants per year 2000..2049' % nmut,
                          evaluations=ev, distinct_nontrivial=dist, rule='one evaluation = (total offset, DST flag, abbreviation) at one instant; distinct = (zone, option combination, source)',
                          samples=[dict(zone='Syn/MinusHalf', line='Zone Syn/MinusHalf -0:30 - -0030', expect='UTC offset -1800 s')]))
    # accounting
    ev_a, pa = accounting(R, scratch, syn, 'synthetic')
    problems += pa
    ev_u, pu = accounting(R, scratch, uns, 'unsupported')
    ev_a += ev_u
    problems += pu
    ev_b, pb = accounting(R, scratch, open(os.path.join(scratch, 'zonedbx_in', 'africa')).read(), 'recorded-2020d-lines')
    problems += pb
    R.bounded.append(dict(name='accounting: every input zone / link is emitted or listed as removed with a reason', bound='both synthetic sources, the seeded mutations and the recorded 2020d lines x both scopes',
                          evaluations=ev_a + ev_b + ev_mut_acc, distinct_nontrivial=4 + 2 * nmut, rule='one evaluation per input zone or link', samples=[dict(zone='Syn/Era', emitted=True)]))
    n_ts, p_ts = time_string_bounded()
    problems += p_ts
    R.bounded.append(dict(name='time_string_to_seconds vs the zic reading', bound='[-]h[:mm[:ss]] with h 0..26 and mm, ss in {0,1,15,30,59,60}', evaluations=n_ts, distinct_nontrivial=n_ts,
                          rule='exhaustive over the stated grid', samples=[dict(text='-0:30', expect=-1800)]))
    if problems:
        zc.violation(R, 'c03', problems, 'props/C03.py bounded part')
    R.assumptions += [
        'P: numeric helpers (seconds_to_hms, hms_to_seconds, truncate_to_granularity, div_to_zero, is_year_tiny) and the out-of-bounds rejection test are verified from the Python AST',
        'BOUNDED (never counted as proved): the semantic clause on (i) the 2020d lines recorded beside the shipped tables -- the compiler must reproduce the shipped tables exactly, which C01/C02 compare with zic -- and (ii) a synthetic corner-value source with seeded mutations, through ZoneSpecifier against zic on the same source',
        'the vendored 2025b release is available only as the abbreviated tzdata.zi, which the extractor cannot read; it is not used',
        'string parsing of Rule/Zone lines (extractor) is outside pyvc: covered only by the bounded runs',
    ]
    return check.finish(R, 'exploration',
        'Numeric helpers and the out-of-bounds filter proved from the Python AST; end-to-end semantic preservation and the '
        'accounting clause decided by bounded runs of the real compiler against zic.')
