"""C04 -- Python ZoneSpecifier and the C++ extended processor are observationally equal (other: P pairs + B)."""
import multiprocessing as mp
import os
import re
import sys
import z3
from vc import check, symex, build
from . import common, zonescommon as zc
from rtc import runner, native, pyzones
from contracts import pyref

CPP_PAIRS = ['ace_time::ExtendedZoneProcessor::eraOverlapsInterval(ace_time::extended::ZoneEraBroker, ace_time::extended::ZoneEraBroker, ace_time::extended::YearMonthTuple const&, ace_time::extended::YearMonthTuple const&)',
             'ace_time::ExtendedZoneProcessor::processActiveTransition(ace_time::extended::ZoneMatch const*, ace_time::extended::Transition*, ace_time::extended::Transition**)',
             'ace_time::ExtendedZoneProcessor::createMatch(ace_time::extended::ZoneEraBroker, ace_time::extended::ZoneEraBroker, ace_time::extended::YearMonthTuple const&, ace_time::extended::YearMonthTuple const&)',
             'ace_time::ExtendedZoneProcessor::compareTransitionToMatch(ace_time::extended::Transition const*, ace_time::extended::ZoneMatch const*)',
             'ace_time::ExtendedZoneProcessor::compareEraToYearMonth(ace_time::extended::ZoneEraBroker, signed char, unsigned char)',
             'ace_time::ExtendedZoneProcessor::getMostRecentPriorYear(signed char, signed char, signed char, signed char)',
             'ace_time::ExtendedZoneProcessor::compareTransitionToMatchFuzzy(ace_time::extended::Transition const*, ace_time::extended::ZoneMatch const*)',
             'ace_time::ExtendedZoneProcessor::calcInteriorYears(signed char*, unsigned char, signed char, signed char, signed char, signed char)',
             'ace_time::ExtendedZoneProcessor::normalizeDateTuple(ace_time::extended::DateTuple*)',
             'ace_time::BasicZoneProcessor::calcStartDayOfMonth(short, unsigned char, unsigned char, signed char)']


def replay_create_match(R, o):
    """run the real ZoneSpecifier._create_match on the model's eras and interval; the C++ reading (proved for createMatch) keeps
    the suffix of a tuple that is not replaced"""
    if '_create_match#' not in o.name or not o.model:
        return None
    import subprocess, json
    g = lambda k, d=0: int(o.model.get(k, d))
    ch = lambda v: chr(v) if v in (119, 115, 117) else 'w'
    code = r"""
import sys, json
sys.path.insert(0, %r)
from types import SimpleNamespace as NS
from zonedb.zone_specifier import ZoneSpecifier, YearMonthTuple
prev = NS(untilYear=%d, untilMonth=%d, untilDay=%d, untilSeconds=%d, untilTimeSuffix=%r)
era = NS(untilYear=%d, untilMonth=%d, untilDay=%d, untilSeconds=%d, untilTimeSuffix=%r)
m = ZoneSpecifier._create_match(prev, era, YearMonthTuple(%d, %d), YearMonthTuple(%d, %d))
print(json.dumps(dict(start=list(m.startDateTime), until=list(m.untilDateTime))))
""" % (os.path.join(build.REPO, 'tools'), g('p_y'), g('p_m'), g('p_d'), g('p_s'), ch(g('p_f', 119)), g('e_y'), g('e_m'), g('e_d'), g('e_s'), ch(g('e_f', 119)),
       g('s_y'), g('s_m'), g('u_y'), g('u_m'))
    p = subprocess.run(['/venv/bin/python', '-c', code], capture_output=True, text=True)
    if p.returncode:
        return False, dict(error=p.stderr[-300:])
    got = json.loads(p.stdout.strip().split('\n')[-1])
    pu = [g('p_y'), g('p_m'), g('p_d'), g('p_s'), ch(g('p_f', 119))]
    lower = [g('s_y'), g('s_m'), 1, 0, 'w']
    want_start = lower if pu[:4] < lower[:4] else pu
    eu = [g('e_y'), g('e_m'), g('e_d'), g('e_s'), ch(g('e_f', 119))]
    upper = [g('u_y'), g('u_m'), 1, 0, 'w']
    want_until = upper if upper[:4] < eu[:4] else eu
    bad = got['start'] != want_start or got['until'] != want_until
    return bad, dict(python=got, cpp_reading=dict(start=want_start, until=want_until), how='ZoneSpecifier._create_match(prev, era, start_ym, until_ym) under /venv/bin/python')


def run(R):
    common.load_ir(R)
    obs = check.verify_functions(R, CPP_PAIRS)
    obs += common.avr_pass(R, CPP_PAIRS)
    from vc.pyvc import PyOutOfReach
    try:
        pyobs = pyref.python_pair_obligations() + pyref.create_match_obligations() + pyref.process_transition_obligations() + pyref.era_overlap_obligations()
        from contracts import ruleday
        py2, tests, npaths = ruleday.python_obligations()
        pyobs += [(n, pc, g) for (n, pc, g) in py2 if not n.startswith('cover:') and 'calc_day_of_month' in n]
    except PyOutOfReach as e:
        R.out_of_reach.append(('tools/zonedb/zone_specifier.py', str(e)))
        pyobs = []
    R.functions['tools/zonedb/zone_specifier.py:{_get_most_recent_prior_year,_compare_transition_to_match_fuzzy,_compare_transition_to_match,_compare_era_to_year_month}; tools/tzdb/transformer.py:calc_day_of_month'] = dict(generated=len(pyobs), engine='pyvc')
    for name, pc, goal in pyobs:
        obs.append(symex.Obligation(name, 'post', name.split('#')[0], None, list(pc), goal, {'no_entry_state': True}))
    R.custom_replay = replay_create_match
    check.discharge(R, obs, timeout=120)
    # ---- bounded: whole-object equality on every zonedbx zone decoded to the Python data model
    orc = zc.oracles(R)
    exe = zc.harness(False)
    # what the C++ processor selects for local date-times around every transition
    walls = {}
    rc, out, err = native.run(exe, ['c04dump', orc['zonedbx']['path'], '0', '387'], timeout=1200)
    cur = None
    for line in out.split('\n'):
        if line.startswith('Z '):
            cur = line[2:].strip()
            walls[cur] = []
        elif line.startswith('W '):
            _, w, off = line.split()
            walls[cur].append((int(w), int(off)))
    infos, order = pyzones.decode_db('zonedbx')
    oracle = pyzones.load_oracle(orc['zonedbx']['path'])
    all8 = [(vm, ip, oc) for vm in (14, 13) for ip in (True, False) for oc in (True, False)]
    combos = all8 if R.tier == 'thorough' else [(14, True, True), (13, False, False), (14, False, True), (13, True, False)]
    years_step = 1 if R.tier == 'thorough' else 3
    # 13-month window: local date-times of the previous December are outside the window by construction; keep only
    # the walls of the year the window is built for (same year as the wall time) -- the property compares answers, not windows
    tools = os.path.join(build.REPO, 'tools')
    jobs = []
    n = len(oracle)
    per = (n + 47) // 48
    for lo in range(0, n, per):
        sl = oracle[lo:lo + per]
        jobs.append((tools, {z: infos[z] for z, _ in sl}, sl, combos, years_step, {z: walls.get(z, []) for z, _ in sl}))
    ev = dist = 0
    fails = []
    with mp.get_context('fork').Pool(16) as pool:
        for e, d, f in pool.imap_unordered(pyzones.worker, jobs):
            ev += e
            dist += d
            fails += f
    res = dict(evaluations=ev, distinct=dist, fails=fails, crashed=[])
    problems = zc.record(R, 'Python ZoneSpecifier on zonedbx decoded to the Python data model vs zic and vs the C++ selection',
                         'all 387 zones x %d option combinations x {every transition -1s/0/+1s, 4 instants per year (every %d year), 17 local date-times around every transition}' % (len(combos), years_step), res,
                         'one evaluation = (total offset, DST offset != 0, abbreviation) at an instant, or the offset selected for a local date-time; distinct = (zone, option combination) pairs',
                         [dict(zone='Australia/Perth', options='13 months, basic finder, basic selector', instant='2006-12-03T02:00+08')])
    if problems:
        zc.violation(R, 'c04', problems, 'props/C04.py bounded part (python workers)')
    R.assumptions += [
        'P: the translated pairs are each verified against one semantic specification (instantiated over Int for the Python AST and over bit-vectors for the IR): calc_day_of_month / calcStartDayOfMonth, _get_most_recent_prior_year / getMostRecentPriorYear, _compare_transition_to_match_fuzzy / compareTransitionToMatchFuzzy, _compare_transition_to_match / compareTransitionToMatch, _compare_era_to_year_month / compareEraToYearMonth; C++ calcInteriorYears and normalizeDateTuple against their own contracts',
        'BOUNDED (never counted as proved): whole-object equality. The C++ tables are decoded to the Python data model through the decoders proved under C12; Python answers are compared with the zic oracle at the instants where C01 compares the C++ answers, and with the offset the C++ processor selects (findTransitionForDateTime) for local date-times',
        'quick tier: 4 of the 8 option combinations and every third year; thorough: all 8 and every year',
    ]
    return check.finish(R, 'other',
        'Function pairs verified on both languages against shared specifications; observational equality of the whole objects and '
        'independence from the tuning options by a bounded differential run on all zonedbx zones.')
