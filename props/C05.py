"""C05 -- instant <-> zoned date-time round trip; conversions preserve the instant (proof, modular in the zone's offset)."""
import z3
from vc import check
from . import common


def run(R):
    common.load_ir(R)
    names = common.names_for(R, 'C05')
    obs = check.verify_functions(R, names)
    obs += common.avr_pass(R, names)
    obs += common.lemma_obligations(R, 'C05')
    check.discharge(R, obs, timeout=120)
    R.assumptions += [
        'modular in the zone: TimeZone::getUtcOffset is used through its contract "returns some TimeOffset o" -- that o is the right offset is C01/C02',
        'range precondition (weakest the code admits): s is not the sentinel and INT32_MIN < s + 60 o <= INT32_MAX, o not the error offset',
        'valid date-time fields are not flagged by isError (lemma proved under C06)',
    ]
    return check.finish(R, 'proof',
        'OffsetDateTime / ZonedDateTime forEpochSeconds, forUnixSeconds, toEpochSeconds, toUnixSeconds, convertTo*, compareTo '
        'verified from the IR against the C06 contracts of LocalDateTime; round trips and instant preservation are lemmas over '
        'the contracts, for every zone kind at once.')
