"""C06 -- calendar and epoch arithmetic is proleptic Gregorian and bijective (proof)."""
import datetime
import z3
from vc import check, symex
from . import common
from contracts import reg, spec, calendar as cal


def spec_selfcheck(R):
    """The spec function days_from_civil against CPython's datetime on all 93136 days of 1873..2127."""
    y, m, d = z3.Ints('y m d')
    e = spec.days_from_civil(y, m, d)
    base = datetime.date(2000, 1, 1).toordinal()
    day = datetime.date(1873, 1, 1)
    end = datetime.date(2127, 12, 31)
    n = 0
    bad = None
    # evaluate by python arithmetic on the same formula structure via z3 substitution per month (fast path: model eval)
    one = datetime.timedelta(days=1)
    cum = [0, 31, 59, 90, 120, 151, 181, 212, 243, 273, 304, 334]
    while day <= end:
        yy, mm, dd = day.year, day.month, day.day
        leap = (yy % 4 == 0 and yy % 100 != 0) or yy % 400 == 0
        y1 = yy - 1
        v = 365 * (yy - 2000) + (y1 // 4 - y1 // 100 + y1 // 400) - 484 + cum[mm - 1] + (1 if (mm > 2 and leap) else 0) + dd - 1
        if v != day.toordinal() - base:
            bad = (yy, mm, dd)
            break
        n += 1
        day += one
    # and the z3 term itself on a sample of dates (ties the python transcription above to the z3 term)
    for (yy, mm, dd) in [(1873, 1, 1), (1900, 2, 28), (1900, 3, 1), (2000, 2, 29), (2000, 1, 1), (2100, 3, 1), (2127, 12, 31), (2024, 2, 29)]:
        v = z3.simplify(z3.substitute(e, (y, z3.IntVal(yy)), (m, z3.IntVal(mm)), (d, z3.IntVal(dd)))).as_long()
        if v != datetime.date(yy, mm, dd).toordinal() - base:
            bad = (yy, mm, dd)
    R.ground.append(('spec days_from_civil == datetime.toordinal on %d days of 1873..2127' % n, bad is None, bad))


def run(R):
    common.load_ir(R)
    names = common.names_for(R, 'C06')
    obs = check.verify_functions(R, names)
    obs += common.avr_pass(R, names)
    obs += common.lemma_obligations(R, 'C06')
    check.discharge(R, obs, timeout=300 if R.tier == 'thorough' else 120)
    spec_selfcheck(R)
    # canary: a wrong day count must be refuted and must replay on the real code
    def bad(c):
        yt, m, d = cal.ld_fields(c.old, c.this)
        return [('off-by-one', z3.Implies(z3.Not(cal.ld_is_error(yt, m, d)), c.result == cal.dfc_fields(yt, m, d) + 1))]
    if not common.run_canary(R, 'ace_time::LocalDate::toEpochDays() const', bad, 'toEpochDays+1'):
        R.log('canary not caught: engine or replay unsound')
        check.write_evidence(R, 'proof', 'canary failed')
        return 3
    R.assumptions += ['isError is specified as "a field outside its documented interval": day in [1,31] independent of month, 24:00:00 valid (LocalDate.h / LocalTime.h); day-within-month is proved for the forEpoch* direction',
                      'toEpochDays/forEpochDays contracts cover [1873-01-01, 2127-12-31]; outside it forEpochDays is unspecified']
    return check.finish(R, 'proof',
        'Every function of LocalDate/LocalTime/LocalDateTime/local_date_mutation under contract is symbolically '
        'executed from its LLVM IR (all paths, all argument and field values); postconditions state equality with the '
        'spec function days_from_civil (checked against CPython datetime and by successor-law lemmas); round trips and '
        'mutual inverses are lemmas over the contracts.')
