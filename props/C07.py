"""C07 -- local time resolution: identity if unique, forward in gaps, valid in overlaps (exploration: P parts + B)."""
from vc import check
from . import common, zonescommon as zc
from rtc import runner


def run(R):
    common.load_ir(R)
    names = common.names_for(R, 'C07')
    obs = check.verify_functions(R, names)
    obs += common.avr_pass(R, names)
    obs += common.lemma_obligations(R, 'C07')
    check.discharge(R, obs, timeout=120)
    orc = zc.oracles(R)
    exe = zc.harness(False)
    window = 200
    problems = []
    for db in ('zonedbx', 'zonedb'):
        res = runner.run_sliced(exe, ['c07', db, orc[db]['path']], runner.SIZES[db], [str(window), str(R.seed)], timeout=6000)
        problems += zc.record(R, 'ZonedDateTime::forComponents on %s vs the oracle classification' % db,
                              'all zones x every minute within +-%d min of every transition of 2000..2049 (every gap and overlap minute) + 400 seeded wall times per zone' % window, res,
                              'one evaluation = one wall time resolved and classified unique / overlap / gap from the zic transitions; distinct = transitions whose neighbourhood was enumerated',
                              [dict(zone='America/Godthab', wall='2021-03-27T23:30', expect='unique: returned unchanged at -03:00')])
    if problems:
        zc.violation(R, 'c07', problems, 'rtc/zones c07 <db> <oracle> <zlo> <zhi> %d %d' % (window, R.seed))
    R.assumptions += [
        'PROVED: normalizeDateTuple folds any minutes in (-1440, 2880) into [0, 1440) keeping the instant; for normalised tuples the field-by-field order used by findTransitionForDateTime is chronological; findTransition returns the last active transition starting at or before t',
        'BOUNDED (never counted as proved): the resolution semantics (identity / one of two, later one for extended / forward by the gap) on the real code for every minute around every transition',
        'findTransitionForDateTime: only "null or an active transition" is proved; "the last one starting at or before the wall time" is left to the bounded part (quantified obligation undecided by the solvers)',
    ]
    return check.finish(R, 'exploration',
        'Normalisation and search contracts proved from the IR (incl. the obligation 0 <= minutes < 1440 that makes lexicographic '
        'comparison chronological); the resolution semantics decided by the bounded stand-in against the zic classification.')
