"""C08 -- answers are independent of query history (other: binding protocol proved with ghost state + bounded differential runs)."""
from vc import check
from . import common, zonescommon as zc
from rtc import runner


def run(R):
    common.load_ir(R)
    names = common.names_for(R, 'C08')
    obs = check.verify_functions(R, names)
    obs += common.avr_pass(R, names)
    obs += common.lemma_obligations(R, 'C08')
    check.discharge(R, obs, timeout=120)
    exes = zc.harness(True)
    nseq = 30 if R.tier == 'quick' else 400
    problems = []
    for db in ('zonedbx', 'zonedb'):
        res = runner.run_sliced(exes, ['c08', db], runner.SIZES[db], [str(R.seed), str(nseq)], timeout=6000)
        problems += zc.record(R, 'history independence on %s (ASan+UBSan)' % db,
                              'per zone: all ordered pairs of 13 cached-year states (incl. out-of-range years, each query repeated); %d seeded shared-processor zone pairs x 5x5 method pairs; managers with cache size 1..4 over 6 zones, %d steps' % (nseq, nseq), res,
                              'one evaluation = all five answers (offset, DST offset, abbreviation text, printed names, resolved date-time) compared with a fresh time zone + own processor; distinct = histories',
                              [dict(history='query Africa/Accra, then America/Bogota.getAbbrev on the same processor', expect='"-05"')])
    if problems:
        zc.violation(R, 'c08', problems, 'rtc/zones c08 <db> <zlo> <zhi> %d %d' % (R.seed, nseq))
    R.assumptions += [
        'PROVED (ghost binding state): every TimeZone method that delegates to a processor finds it bound to its own zone; setZoneInfo rebinds and invalidates; init() keeps "mIsFilled implies the cache key is the year filled" on every return path; the manager cache returns a processor bound to the key',
        'the fill pipelines are summarised by abstract contracts that may write the cache arrays but not the binding / key / flag fields (checked by the frame obligations of init)',
        'BOUNDED (never counted as proved): determinism of the fill pipeline and independence from stale pool contents, by differential runs under ASan+UBSan',
    ]
    return check.finish(R, 'other',
        'Binding / cache-flag protocol proved from the IR with ghost state; end-to-end history independence by bounded differential '
        'runs on the real code against fresh processors.')
