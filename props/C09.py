"""C09 -- total error handling and memory safety; transition buffers never overflow (other: P + B)."""
import json
import time
import os
import re
import z3
from vc import check, symex, build
from . import common, zonescommon as zc
from rtc import native, runner

PREFIXES = ['ace_time::LocalDate::', 'ace_time::LocalTime::', 'ace_time::LocalDateTime::', 'ace_time::TimeOffset::',
            'ace_time::OffsetDateTime::', 'ace_time::ZonedDateTime::', 'ace_time::TimePeriod::', 'ace_time::local_date_mutation::',
            'ace_time::time_offset_mutation::', 'ace_time::time_period_mutation::', 'ace_time::zoned_date_time_mutation::']
SKIP = ('String', 'printTo', 'operator')


def value_class_functions(R):
    out = []
    for dem, names in R.mod.by_demangled.items():
        if any(dem.startswith(p) for p in PREFIXES) and not any(s in dem for s in SKIP):
            fn = R.mod.functions[names[0]]
            if '~' in dem:
                continue
            out.append(dem)
    return sorted(out)


def safety_obligations(R, names):
    """every value-class operation verified for the safety family with NO precondition beyond the guarantees of the
    language (valid, non-overlapping references): all callees are executed in place, only externals keep their models"""
    # externals keep their models; callees whose contract is total (no domain precondition; proved by C05/C06/C17) are used
    # through that contract, everything else is executed in place
    reg_ext = {k: c for k, c in R.reg.REG.items() if c.model is not None or (c.total and c.pure and not c.transparent and not c.loops)}
    allobs = []
    names = list(names)
    done = set()
    while names:
        n = names.pop(0)
        if n in done:
            continue
        done.add(n)
        base = R.reg.REG.get(n)
        top = symex.Contract(n, lang_requires=(base.lang_requires if base is not None else None), ensures=lambda c: [],
                             assigns=None, ghost_init=(base.ghost_init if base is not None else None))
        ex = symex.Executor(R.mod, reg_ext, options=dict(max_paths=3000))
        import time as _t
        _t0 = _t.time()
        try:
            obs = ex.verify(top)
        except (symex.OutOfReach, symex.Undecided) as e:
            R.out_of_reach.append((n, str(e)))
            continue
        except (z3.Z3Exception, KeyError) as e:
            if R.mod.ptr_bits != 16:
                raise
            # 16-bit target: contracts or environment models that fix 64-bit pointer sorts do not apply
            R.out_of_reach.append((n, 'contract / model written for 64-bit pointers: %s' % str(e)[:80]))
            continue
        fn = ex.lookup_fn(n)
        keep = []
        for o in obs:
            if o.kind in symex.SAFETY_KINDS:
                if o.fn != n:
                    # an instruction of a callee executed in place: that callee is verified on its own, for all of its inputs
                    if o.fn not in done and o.fn not in names and o.fn in R.mod.by_demangled:
                        names.append(o.fn)
                    continue
                o.contract = top
                o.fnobj = fn
                try:
                    from vc import replay
                    o.info['observe'] = replay.observe_terms(ex, fn, ex.top_ctx.args, z3.Const('mem0', ex.mem_sort))
                except Exception:
                    pass
                keep.append(o)
        R.functions['[safety] ' + n] = dict(paths=ex.paths_top, safety_obligations=len(keep), gen_s=round(_t.time() - _t0, 2))
        allobs.extend(keep)
    return allobs


def run(R):
    common.load_ir(R)
    # (1) safety family of the value classes
    names = value_class_functions(R)
    obs = safety_obligations(R, names)
    # out-of-reach functions of this sweep are listed, not fatal: the sweep is best effort over every public function
    skipped = list(R.out_of_reach)
    R.out_of_reach = []
    R.notes.append('value-class functions outside the executor\'s reach for the safety sweep: %r' % [(n, r[:80]) for n, r in skipped])
    # (1b) the same sweep on the IR compiled for AVR (16-bit int): integer promotions are 16 bits wide there
    t_avr = time.time()
    from vc import ir as _ir
    if getattr(R, 'mod_avr', None) is None:
        R.mod_avr = _ir.load_ll(build.logic_ll(target='avr'))
    x86_mod, R.mod = R.mod, R.mod_avr
    try:
        names_avr = value_class_functions(R)
        fkeys = set(R.functions)
        obs_avr = safety_obligations(R, names_avr)
    finally:
        R.mod = x86_mod
    for k in [k for k in R.functions if k not in fkeys]:
        R.functions['[avr] ' + k] = R.functions.pop(k)
    for o in obs_avr:
        o.name = o.name + '@avr'
        o.info['target'] = 'avr'
        o.fnobj = None
    skipped_avr = [x for x in R.out_of_reach if x not in skipped]
    R.out_of_reach = []
    R.notes.append('AVR safety sweep: %d value-class functions, %d obligations, %d functions not decided in this pass (contracts / environment models fixing 64-bit pointers): %r' % (
        len(names_avr), len(obs_avr), len(skipped_avr), [n for n, _ in skipped_avr][:8]))
    R.log('AVR safety sweep: %d obligations (%.1fs)' % (len(obs_avr), time.time() - t_avr))
    obs += obs_avr
    # (2) the transition pool and searches, under their representation invariant
    pool = common.names_for(R, 'C09')
    obs += check.verify_functions(R, pool)
    # (2b) every other function under contract (loops, ghost state: lookups, clocks, printers, leaf functions of the processors):
    # its safety obligations, under the precondition of its contract -- the functional obligations belong to the other properties
    check.discharge(R, obs, timeout=60)
    swept = set(names)
    rest = [n for n, c in R.reg.REG.items() if n not in swept and n not in pool and not c.transparent and not c.extern and c.model is None
            and n in R.mod.by_demangled and c.props]
    before = len(obs)
    robs = check.verify_functions(R, rest)
    obs = [o for o in robs if o.kind in symex.SAFETY_KINDS]
    R.notes.append('functions under contract swept for safety under their contract preconditions: %d (%d safety obligations)' % (len(rest), len(obs)))
    check.discharge(R, obs, timeout=60)
    R.samples.append(dict(value_class_functions=len(names), skipped=[n for n, _ in skipped][:10]))
    # (3) bounded: sanitizers on the real code
    problems = []
    exes = zc.harness(True)
    for db in ('zonedbx', 'zonedb'):
        res = runner.run_sliced(exes, ['c09', db], runner.SIZES[db], [str(R.seed)], timeout=3000)
        problems += zc.record(R, 'out-of-range / sentinel / repeated arguments on %s (ASan+UBSan)' % db,
                              'all zones x 64 seeded call sequences of length 4 over {valid, below range, above range, sentinel} instants x {getUtcOffset, getDeltaOffset, getAbbrev, ZonedDateTime::forEpochSeconds, getOffsetDateTime}', res,
                              'one evaluation = the five calls at one instant; a sanitizer report, an error for an in-range instant or a non-error for a far out-of-range instant is a violation; distinct = zones',
                              [dict(sequence=['2000-01-01', 'sentinel', 'sentinel', '2068-01-19'], expect='error values for the last three, repeatedly')])
    res = runner.run_sliced(exes, ['c09', 'buffers'], 387, ['1'], timeout=3000)
    problems += zc.record(R, 'transition buffers (extended high-water mark < recorded size and < 8; basic drop counter == 0)', 'all zones x years 1999..2050', res,
                          'one evaluation = one (zone, year) cache fill; distinct = zones', [dict(zone='Europe/Dublin', year=2019)])
    if problems:
        zc.violation(R, 'c09', problems, 'rtc/zones c09 <db|buffers> <zlo> <zhi> %d' % R.seed)
    # value classes over strided epoch seconds and boundary component tuples, UBSan in recover mode: every report must be a listed finding
    exer = native.build_harness('zones', san='recover', opt='-O1')
    rc, out, err = native.run(exer, ['c09', 'values', '0', '1', str(R.seed)], timeout=1200)
    m = re.search(r'SUMMARY (\{.*\})', out)
    summ = json.loads(m.group(1)) if m else dict(evaluations=0, distinct=0)
    reports = {}
    lines = err.split('\n')
    for i, line in enumerate(lines):
        mm = re.search(r'runtime error: ([a-z ]+?)(:| [0-9-]|$)', line)
        if mm:
            fn = ''
            for l2 in lines[i + 1:i + 4]:
                m2 = re.search(r'#0 \S+ in (.+?) /', l2)
                if m2:
                    fn = m2.group(1)
                    break
            reports.setdefault('ubsan:%s:%s' % (symex.short_fn(fn), mm.group(1).strip()), line.strip()[-200:])
    known = {k['key']: k for k in check.load_known() if k['property'] == 'C09' and k.get('status') == 'known'}
    fails = [l[5:] for l in out.split('\n') if l.startswith('FAIL ')]
    if 'AddressSanitizer' in err:
        fails.append('AddressSanitizer report: ' + err[err.index('AddressSanitizer'):][:400])
    for key, line in reports.items():
        if key in known:
            if not any(k is known[key] for k, _ in R.known_hits):
                R.known_hits.append((known[key], dict(native=line)))
        else:
            fails.append('%s  (%s)' % (key, line))
    R.bounded.append(dict(name='value classes under UBSan (recover mode) + ASan', bound='int32 epoch seconds strided by 65521 + 11x6x8x5x4 boundary component tuples',
                          evaluations=summ.get('evaluations', 0), distinct_nontrivial=summ.get('distinct', 0),
                          rule='distinct = component tuples; every sanitizer report must match a listed known finding (function + kind)',
                          samples=[dict(report=k, line=v) for k, v in list(reports.items())[:4]]))
    if fails:
        zc.violation(R, 'c09values', fails, 'rtc/zones c09 values 0 1 %d' % R.seed)
    R.assumptions += [
        'P: every public operation of the value classes is executed from the IR with all callees in place and NO precondition beyond valid references; each arithmetic / division / shift / index / unreachable obligation is discharged or listed as a known finding with its witness',
        'P: transition pool operations preserve mIndexPrior <= mIndexCandidates <= mIndexFree <= 8 and stay in bounds under that invariant; reservePrior / setFreeAgentAsPrior need "pool not full" (no guard in the code): discharged for the shipped data only by the bounded high-water run',
        'BOUNDED (never counted as proved): processors under ASan+UBSan over the stated sequences; high-water marks for every shipped zone and year 1999..2050',
        'functions of the safety sweep that use constructs outside the executor (listed in coverage) are covered by the bounded part only',
    ]
    return check.finish(R, 'other',
        'Safety family (signed overflow, division, shifts, array indices, unreachable) generated from the IR for every public '
        'value-class operation without preconditions; pool representation invariant proved per operation; sanitizer runs on the real '
        'processors as the bounded part. Unconditional failures on the pinned tree are listed known findings.')
