"""C10 -- zone lookup by name, id and index is exact and always terminates (proof + bounded stand-in as refuter)."""
import json
import os
import z3
from vc import check
from . import common


def bounded(R):
    """All registries of size 0..40 from the shipped zones (sorted / shuffled) x present and absent names, ids, indices,
    on the real code under ASan with a watchdog.  Stand-in only: never counted as proved."""
    from rtc import native
    exe = native.build_harness('c10_lookup')
    seeds = [R.seed] if R.tier == 'quick' else [R.seed + k for k in range(6)]
    ev = 0
    regs = 0
    fail = None
    for s in seeds:
        rc, out, err = native.run(exe, [str(s), '40'], timeout=600)
        last = out.strip().split('\n')[-1] if out.strip() else ''
        try:
            j = json.loads(last)
        except Exception:
            j = {'fail': 'crash', 'case': last[-200:]}
        if rc != 0 or j.get('fail'):
            fail = dict(j, seed=s, stderr=err[-1500:])
            break
        ev += j['evaluations']
        regs += j['registries']
    R.bounded.append(dict(name='registry lookups on the real ZoneRegistrar (ASan, watchdog)', bound='registry sizes 0..40, %d seed(s), both databases + the two full registries' % len(seeds),
                          evaluations=ev, distinct_nontrivial=regs,
                          rule='one evaluation per (registry, query); distinct = number of distinct registries built (size x sorted/shuffled x window)',
                          samples=[dict(registry='zonedb window size 6 sorted', query='absent name before first entry "A"')]))
    return fail


def run(R):
    common.load_ir(R)
    names = common.names_for(R, 'C10')
    obs = check.verify_functions(R, names)
    obs += common.avr_pass(R, names)
    obs += common.lemma_obligations(R, 'C10')
    check.discharge(R, obs, timeout=60)
    fail = bounded(R)
    if fail:
        R.refutation = fail
    R.assumptions += [
        'ghost views of table arrays (rule_from/rule_to/rule_month/era_until, reg_namekey/reg_zoneid/reg_zoneinfo) are DEFINED as the value stored at entry i of the unmodified table; instances of these definitions enter a proof only at the entry an accessor call touches (Contract.defs, assumed at call sites, never an obligation) -- a conservative definitional extension; the accessors themselves (rule(i), era(i), zoneInfo(i)) are verified for the address they return',
        'strcmp / strcmp_P / strcmp_PP (libc / stubs) are modelled by an order-embedding strkey of string contents into the integers; result in [-127,127] (7-bit ASCII names); strings and registry are not modified during a lookup',
        'the ghost registry views G/IDG/ZIG are definitional: their defining instances are added at each registry access',
        'ZoneManagerImpl is verified for the <2>-slot cache instantiations of both scopes (the template text is the same for every size)',
    ]
    return check.finish(R, 'proof',
        'isSorted, linear and binary search (loop invariants + variants = termination), the index guards and the '
        'registrar/manager wrappers of both template instantiations are verified from the IR; every registry access '
        'carries the obligation index < registry size. A bounded native run (ASan + watchdog) is the refuter that supplies '
        'a concrete failing registry/query when an inductive obligation fails.')
