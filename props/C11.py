"""C11 -- zone ids are djb2(name), unique, shared by all databases, and stable (proof + ground obligations)."""
import json
import os
import re
import z3
from vc import check, symex, tables, build
from . import common
from contracts import zoneid

BASELINE = os.path.join(os.path.dirname(os.path.dirname(os.path.abspath(__file__))), 'baseline', 'zone_ids.json')


def normalize(name):
    return re.sub('[^a-zA-Z0-9_]', '_', name.replace('+', '_PLUS_'))


def ground(R):
    G = R.ground
    T = {db: tables.Tables(db) for db in ('zonedb', 'zonedbx')}
    # ids in the IR (constants as the compiler emitted them from zone_infos.h) equal the header text
    ir_ids = {}
    for g in R.mod.globals.values():
        m = re.match(r'ace_time::(zonedbx?)::kZoneId(\w+)$', g.demangled or '')
        if m and g.init is not None and hasattr(g.init, 'v'):
            ir_ids[(m.group(1), m.group(2))] = g.init.v & 0xffffffff
    for db, t in T.items():
        names = list(t.zones)
        bad = [n for n in names if t.zones[n]['id'] != tables.djb2(n)]
        G.append(('%s: zoneId == djb2(name) for all %d zones' % (db, len(names)), not bad, bad[:5]))
        ids = [t.zones[n]['id'] for n in names]
        G.append(('%s: ids pairwise distinct' % db, len(set(ids)) == len(ids), None))
        bad = [n for n in names if t.ids_h.get(t.zones[n]['var']) != t.zones[n]['id']]
        G.append(('%s: published kZoneId constants (zone_infos.h) equal the ids (%d constants)' % (db, len(t.ids_h)), not bad and len(t.ids_h) == len(names), bad[:5]))
        bad = [k for k, v in t.ids_h.items() if ir_ids.get((db, k)) != v]
        G.append(('%s: kZoneId constants as compiled (IR) equal the header text (%d)' % (db, len(ir_ids)), not bad, bad[:5]))
        # registry: every zone exactly once, strictly ascending in byte order of the names
        var_to_name = {z['var']: n for n, z in t.zones.items()}
        reg_names = [var_to_name.get(v) for v in t.registry]
        G.append(('%s: registry lists every zone exactly once' % db, sorted(x for x in reg_names if x) == sorted(names) and None not in reg_names and len(reg_names) == len(names), None))
        asc = all(a.encode() < b.encode() for a, b in zip(reg_names, reg_names[1:]))
        G.append(('%s: registry strictly ascending by name (byte order), names are 7-bit ASCII' % db, asc and all(max(n.encode()) < 128 for n in names), None))
        G.append(('%s: registry comments name the same zones' % db, t.registry_comment_names == reg_names, None))
        # links
        hdr = open(os.path.join(t.dir, 'zone_infos.h')).read()
        link_comments = dict(re.findall(r'kZone(\w+); // \S+ -> (\S+)', hdr))
        bad = []
        for lv, tv in t.links.items():
            if tv not in var_to_name:
                bad.append((lv, tv, 'target is not a zone'))
            elif link_comments.get(lv) != var_to_name[tv]:
                bad.append((lv, tv, 'differs from the recorded link target %r' % link_comments.get(lv)))
        G.append(('%s: every link (%d) refers to the zone recorded as its target' % (db, len(t.links)), not bad and len(t.links) == len(link_comments), bad[:5]))
    common_names = set(T['zonedb'].zones) & set(T['zonedbx'].zones)
    bad = [n for n in common_names if T['zonedb'].zones[n]['id'] != T['zonedbx'].zones[n]['id']]
    G.append(('ids equal in zonedb and zonedbx for the %d common names' % len(common_names), not bad, bad[:5]))
    bad = [l for l in set(T['zonedb'].links) & set(T['zonedbx'].links) if T['zonedb'].links[l] != T['zonedbx'].links[l]]
    G.append(('common links have the same target in both databases', not bad, bad[:5]))
    # python database
    py = open(os.path.join(build.REPO, 'tools', 'zonedbpy', 'zone_infos.py')).read()
    py_names = re.findall(r"'name': '([^']+)'", py)
    allx = dict((n, z['id']) for n, z in T['zonedbx'].zones.items())
    bad = [n for n in py_names if n in allx and tables.djb2(n) != allx[n]]
    G.append(('tools/zonedbpy: every zone name (%d, %d shared with zonedbx) hashes to the C++ id of that name' % (len(py_names), sum(n in allx for n in py_names)), not bad, bad[:5]))
    # stability against the recorded baseline
    base = json.load(open(BASELINE))
    cur = {}
    for db, t in T.items():
        for n, z in t.zones.items():
            cur[n] = z['id']
    bad = [n for n, v in base['ids'].items() if n in cur and cur[n] != v]
    missing = [n for n in base['ids'] if n not in cur]
    G.append(('ids equal the recorded baseline (%d names)' % len(base['ids']), not bad and not missing, (bad + missing)[:5]))
    R.samples.append(dict(ground='America/Los_Angeles', id='0x%08x' % cur['America/Los_Angeles'], djb2='0x%08x' % tables.djb2('America/Los_Angeles')))


def fresh_sources(R):
    """the same table facts on freshly compiled sources: the real compiler run (both scopes, arduino target) on a synthetic source
    whose names sort differently from their C identifiers, and on the synthetic sources of C03"""
    from . import C03
    G = R.ground
    scratch = os.path.join(build.scratch(), 'c11')
    os.makedirs(scratch, exist_ok=True)
    here = os.path.dirname(os.path.dirname(os.path.abspath(__file__)))
    n_tables = 0
    for label in ('synthetic_ids', 'synthetic', 'synthetic_unsupported'):
        text = open(os.path.join(here, 'rtc', 'tzsrc', label)).read()
        indir = os.path.join(scratch, label + '_in')
        C03.make_input(indir, text)
        for scope, db in (('basic', 'zonedb'), ('extended', 'zonedbx')):
            out = os.path.join(scratch, label + '_' + db)
            rc, log = C03.compile_source(indir, out, scope, 'arduino')
            if rc != 0:
                G.append(('compiled %s/%s: compiler runs' % (label, scope), False, log[-300:]))
                continue
            t = tables.Tables(db, dir=out)
            n_tables += 1
            names = list(t.zones)
            tag = 'compiled %s/%s' % (label, scope)
            bad = [n for n in names if t.zones[n]['id'] != tables.djb2(n)]
            G.append(('%s: zoneId == djb2(name) for all %d zones' % (tag, len(names)), not bad, bad[:5]))
            ids = [t.zones[n]['id'] for n in names]
            G.append(('%s: ids pairwise distinct' % tag, len(set(ids)) == len(ids), None))
            bad = [n for n in names if t.ids_h.get(t.zones[n]['var']) != t.zones[n]['id']]
            G.append(('%s: published kZoneId constants equal the ids' % tag, not bad and len(t.ids_h) == len(names), bad[:5]))
            var_to_name = {z['var']: n for n, z in t.zones.items()}
            reg_names = [var_to_name.get(v) for v in t.registry]
            G.append(('%s: registry lists every zone exactly once' % tag, None not in reg_names and sorted(reg_names) == sorted(names), None))
            asc = None not in reg_names and all(a.encode() < b.encode() for a, b in zip(reg_names, reg_names[1:]))
            G.append(('%s: registry strictly ascending by name (byte order)' % tag, asc, [x for x in reg_names][:12] if not asc else None))
            # links: the emitted alias must denote exactly the zone named as the target in the source's Link line
            src_links = {ln: tn for tn, ln in re.findall(r'^Link\s+(\S+)\s+(\S+)', text, re.M)}
            hdr = open(os.path.join(out, 'zone_infos.h')).read()
            link_names = dict(re.findall(r'kZone(\w+); // (\S+) -> \S+', hdr))       # link var -> link name
            bad = []
            for lv, tv in t.links.items():
                ln = link_names.get(lv)
                if tv not in var_to_name:
                    bad.append((lv, tv, 'target is not an emitted zone'))
                elif ln is None or src_links.get(ln) != var_to_name[tv]:
                    bad.append((ln or lv, 'denotes %r' % var_to_name[tv], 'the source links it to %r' % src_links.get(ln)))
            G.append(('%s: every emitted link (%d) denotes exactly the target zone of its Link line' % (tag, len(t.links)), not bad, bad[:5]))
    R.samples.append(dict(freshly_compiled_tables=n_tables, source='rtc/tzsrc/synthetic_ids: Etc/GMT+1 / Etc/GMT-1 siblings, punctuation, case'))


def refuter(R):
    """Bounded stand-in used only as the refuter: the real hash_name / _detect_hash_collisions in CPython on colliding and
    non-colliding name sets; returns a failing input or None."""
    import subprocess
    code = r"""
import sys, json
sys.path.insert(0, %r)
from tzdb.transformer import Transformer, hash_name
def djb2(n):
    h = 5381
    for c in n: h = (h * 33 + ord(c)) %% (1 << 32)
    return h
fail = None
names = ['America/Los_Angeles', 'Europe/London', 'Etc/UTC', 'A', '', 'Asia/Ho_Chi_Minh', 'X/Dab', 'X/DbA', 'zz' * 40]
for n in names:
    if hash_name(n) != djb2(n): fail = dict(what='hash_name differs from djb2', name=n, got=hash_name(n), want=djb2(n))
t = Transformer.__new__(Transformer)
sets = [['X/Dab', 'X/DbA'], ['A/x', 'X/Dab', 'B/y', 'X/DbA'], ['X/DbA', 'Europe/London', 'X/Dab'], ['Europe/London', 'Etc/UTC'], []]
evals = 0
for s in sets:
    zm = {n: [] for n in s}
    collide = len({djb2(n) for n in s}) != len(s)
    try:
        r = t._detect_hash_collisions(zm); raised = False
    except Exception: raised = True
    evals += 1
    if raised != collide and fail is None:
        fail = dict(what='collision check', names=s, has_collision=collide, raised=raised)
print(json.dumps(dict(fail=fail, evaluations=evals + len(names))))
""" % os.path.join(build.REPO, 'tools')
    p = subprocess.run(['/venv/bin/python', '-c', code], capture_output=True, text=True)
    try:
        j = json.loads(p.stdout.strip().split('\n')[-1])
    except Exception:
        j = dict(fail=dict(what='refuter crashed', stderr=p.stderr[-500:]), evaluations=0)
    R.bounded.append(dict(name='refuter: real hash_name / _detect_hash_collisions in CPython', bound='9 names, 5 name sets (with and without a djb2 collision)',
                          evaluations=j.get('evaluations', 0), distinct_nontrivial=5, rule='one evaluation per name / per name set',
                          samples=[dict(names=['X/Dab', 'X/DbA'], note='djb2 collision pair')]))
    return j.get('fail')


def run(R):
    common.load_ir(R)
    obs = []
    from vc.pyvc import PyOutOfReach
    try:
        o1, n1 = zoneid.hash_name_obligations()
        o2, n2 = zoneid.collision_obligations()
    except PyOutOfReach as e:
        R.out_of_reach.append(('tools/tzdb/transformer.py', str(e)))
        check.write_evidence(R, 'proof', 'out of reach: %s' % e)
        R.log('OUT OF REACH', e)
        return 2
    R.functions['tools/tzdb/transformer.py:hash_name'] = dict(paths=n1, generated=len(o1), engine='pyvc')
    R.functions['tools/tzdb/transformer.py:Transformer._detect_hash_collisions'] = dict(paths=n2, generated=len(o2), engine='pyvc')
    for name, pc, goal in o1 + o2:
        if name.startswith('cover:'):
            R.covers.append((name, 'requires-satisfiable', 'sat' if z3.is_true(z3.simplify(goal)) else 'unsat'))
            continue
        obs.append(symex.Obligation('py:' + name, 'post', name.split('#')[0], None, list(pc), goal, {'no_entry_state': True}))
    check.discharge(R, obs, timeout=60)
    fail = refuter(R)
    if fail:
        R.refutation = dict(case=str(fail))
    ground(R)
    fresh_sources(R)
    badg = [g for g in R.ground if not g[1]]
    if badg and not R.refutation:
        R.refutation = dict(case='ground obligation over the shipped tables fails', failing=[(g[0], str(g[2])[:300]) for g in badg])
        R.refutation_applies = lambda o: False
    # the spec recurrence instantiated on concrete names equals the independent djb2 used for the ground obligations
    R.assumptions += [
        'hash_name: a string is a finite sequence of code points; int is the mathematical integers',
        '_detect_hash_collisions: the dict is an SMT array from hash to item index; zone names are non-empty (a stored name is truthy)',
        'no earlier release is available offline: the id baseline (baseline/zone_ids.json) was recorded from the pinned tree',
        'tools/zonedbpy stores no ids: its clause is that every name hashes to the C++ id of the same name',
    ]
    return check.finish(R, 'proof',
        'hash_name (loop invariant: hash == djb2 of the prefix, with the recurrence 33*h + c mod 2^32 from 5381) and '
        '_detect_hash_collisions (loop invariant over an abstract dict) verified from the Python AST; ground obligations, '
        'exhaustive over the shipped constants: id == djb2(name), uniqueness, equality across databases and with the published '
        'constants (header text and IR), registries complete and strictly ascending, link targets, baseline.')
