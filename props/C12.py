"""C12 -- zone tables are a faithful encoding (proof + ground obligations over the shipped tables)."""
import z3
from vc import check, symex, tables
from . import common
from contracts import encoding as enc


def ground_tables(R):
    """Every era and rule of the four shipped tables decodes (through the proved decoder specs) to the value a zic-syntax
    reader gives for the source line recorded beside the entry."""
    n = 0
    bad = []
    I = z3.IntVal

    def ev(e):
        return z3.simplify(e).as_long()
    for db in ('zonedb', 'zonedbx'):
        T = tables.Tables(db)
        ext = db == 'zonedbx'
        start_year = int(T.context['startYear'])
        for pname, pol in T.policies.items():
            if len(pol['rules']) != pol['numRules']:
                bad.append((db, pname, 'numRules'))
            letters = pol['letters']
            for raw, f in pol['rules']:
                n += 1
                if raw.startswith('Anchor:'):
                    continue          # synthetic entry added by the compiler, no source line
                src = tables.parse_rule_line(raw)
                if src is None:
                    bad.append((db, pname, raw, 'unparsable'))
                    continue
                v = {k: tables.ceval(x) for k, x in f.items()}
                modv = v['atTimeModifier']
                at_min = ev(enc.dec_time_minutes(I(v['atTimeCode']), I(modv)))
                suffix = ev(enc.dec_suffix(I(modv)))
                if ext:
                    dmin = ev(enc.dec_ext_delta_minutes(I(v['deltaCode'] % 256)))
                else:
                    dmin = v['deltaCode'] * 15
                letter = chr(v['letter']) if v['letter'] >= 32 else letters[v['letter']]
                want_from = max(src['fromYear'], 1872) if src['fromYear'] is not None else None
                checks = [
                    ('from', v['fromYearTiny'] + 2000 == src['fromYear'] or (src['fromYear'] is not None and src['fromYear'] < 1873 and v['fromYearTiny'] == -128) or (src['fromYear'] is None)),
                    ('to', (126 if src['toYear'] == 9999 else src['toYear'] - 2000) == v['toYearTiny'] or (src['toYear'] < 1873 and v['toYearTiny'] == -128)),
                    ('in', v['inMonth'] == src['inMonth']), ('dow', v['onDayOfWeek'] == src['dow']), ('dom', v['onDayOfMonth'] == src['dom']),
                    ('suffix', suffix == enc.SUFFIX_VAL[src['suffix']]),
                    ('letter', letter == (src['letter'] if src['letter'] else '-') or (src['letter'] == '' and letter == '-')),
                ]
                # AT is kept to the minute in both scopes; SAVE to the minute (extended) / truncated toward zero to 15 min (basic)
                checks += [('at', at_min * 60 == src['at'] - src['at'] % 60 and src['at'] >= 0)]
                if ext:
                    checks += [('save', dmin * 60 == src['save'])]
                else:
                    checks += [('save', dmin * 60 == (src['save'] - src['save'] % 900 if src['save'] >= 0 else -((-src['save']) - (-src['save']) % 900)))]
                for lbl, ok in checks:
                    if not ok:
                        bad.append((db, pname, raw, lbl, v))
        for zname, z in T.zones.items():
            if len(z['eras']) != z['numEras']:
                bad.append((db, zname, 'numEras'))
            for raw, f in z['eras']:
                n += 1
                src = tables.parse_era_line(raw)
                v = {k: tables.ceval(x) for k, x in f.items() if k not in ('zonePolicy', 'format')}
                if ext:
                    omin = ev(enc.dec_ext_offset_minutes(I(v['offsetCode']), I(v['deltaCode'] % 256)))
                    dmin = ev(enc.dec_ext_delta_minutes(I(v['deltaCode'] % 256)))
                else:
                    omin, dmin = v['offsetCode'] * 15, v['deltaCode'] * 15
                umin = ev(enc.dec_time_minutes(I(v['untilTimeCode']), I(v['untilTimeModifier'])))
                usuf = ev(enc.dec_suffix(I(v['untilTimeModifier'])))
                u = src['until']
                checks = [('offset', omin * 60 == src['offset'] if ext else omin * 60 == src['offset'] - src['offset'] % 900 or omin * 60 == -((-src['offset']) - (-src['offset']) % 900)),
                          ('policy', (f['zonePolicy'] == 'nullptr') == (src['rules'] == '-' or src['rules_delta'] is not None)),
                          ('policy-name', f['zonePolicy'] == 'nullptr' or f['zonePolicy'] == '&kPolicy' + src['rules'].replace('-', '_')),
                          ('fixed-delta', dmin * 60 == (src['rules_delta'] or 0) if f['zonePolicy'] == 'nullptr' else dmin == 0),
                          ('format', f['format'].strip('"') == src['format'].replace('%s', '%')),
                          ('until-year', v['untilYearTiny'] == (127 if u['year'] is None else u['year'] - 2000)),
                          ('until-month', v['untilMonth'] == u['month']),
                          ('until-day', u['day_expr'] is not None or v['untilDay'] == u['day']),
                          ('until-time', umin * 60 == u['seconds'] - u['seconds'] % 60),
                          ('until-suffix', usuf == enc.SUFFIX_VAL[u['suffix']])]
                for lbl, ok in checks:
                    if not ok:
                        bad.append((db, zname, raw, lbl, v))
    R.ground.append(('every era and rule of zonedb and zonedbx decodes to the source line recorded beside it (%d entries)' % n, not bad, bad[:5]))
    R.samples.append(dict(ground='zonedbx America/Los_Angeles era', raw='-8:00    US    P%sT', decoded=dict(offsetMinutes=-480, deltaMinutes=0, untilYearTiny=127)))
    return bad


def replay_encoder(R, o):
    """Run the real Python encoder on the counter-model and compile the emitted C++ initialiser with clang."""
    import subprocess, sys, os, json
    from vc import build
    m = o.model or {}
    if 'enc_offset' not in m or 'offset-delta' not in o.name:
        return None
    off, delta = m['enc_offset'], m.get('enc_delta', 0)
    code = ('import sys, json; sys.path.insert(0, %r); from zonedb.argenerator import _to_extended_offset_and_delta as f; '
            'print(json.dumps(f(%d, %d)))' % (os.path.join(build.REPO, 'tools'), off, delta))
    p = subprocess.run(['/venv/bin/python', '-c', code], capture_output=True, text=True)
    detail = dict(input=dict(offsetSeconds=off, deltaSeconds=delta))
    if p.returncode:
        detail['python'] = p.stderr[-400:]
        return False, detail
    oc, dc = json.loads(p.stdout)
    detail['emitted'] = dict(offsetCode=oc, deltaCode=dc)
    src = os.path.join(build.scratch(), 'narrow.cpp')
    with open(src, 'w') as f:
        f.write('#include <ace_time/common/compat.h>\n#include <ace_time/internal/ZoneInfo.h>\n'
                'static const ace_time::extended::ZoneEra e = { nullptr, "x", %s, %s, 0, 1, 1, 0, 0 };\n' % (oc, dc))
    r = subprocess.run(['clang++'] + build.CXXFLAGS + ['-Wc++11-narrowing', '-fsyntax-only', src], capture_output=True, text=True)
    detail['clang'] = (r.stderr or 'compiles')[-500:]
    if r.returncode != 0:
        return True, detail
    # it compiles: read the entry back through the real C++ broker
    with open(src, 'a') as f:
        f.write('#include <stdio.h>\n#include <ace_time/internal/Brokers.h>\nint main() { ace_time::extended::ZoneEraBroker b(&e); '
                'printf("%d %d\\n", b.offsetMinutes(), b.deltaMinutes()); return 0; }\n')
    exe = src[:-4]
    r = subprocess.run(['clang++'] + build.CXXFLAGS + [src, '-o', exe], capture_output=True, text=True)
    if r.returncode:
        detail['link'] = r.stderr[-300:]
        return False, detail
    out = subprocess.run([exe], capture_output=True, text=True).stdout.split()
    detail['decoded_by_cpp'] = dict(offsetMinutes=int(out[0]), deltaMinutes=int(out[1]))
    return (int(out[0]) * 60 != off or int(out[1]) * 60 != delta), detail


def run(R):
    R.custom_replay = replay_encoder
    common.load_ir(R)
    names = common.names_for(R, 'C12')
    obs = check.verify_functions(R, names)
    obs += common.avr_pass(R, names)
    pyobs = enc.encoder_obligations()
    R.functions['tools/zonedb/argenerator.py:{to_tiny_year,_to_code_and_modifier,_to_modifier,_to_extended_delta_code,_to_extended_offset_and_delta}; tools/tzdb/transformer.py:div_to_zero'] = dict(generated=len(pyobs), engine='pyvc')
    for name, pc, goal in pyobs:
        obs.append(symex.Obligation('py:' + name, 'post', 'argenerator', None, list(pc), goal, {'no_entry_state': True}))
    check.discharge(R, obs, timeout=60)
    bad = ground_tables(R)
    if bad:
        R.refutation = dict(case='table entry does not decode to its source line', entries=[str(b)[:300] for b in bad[:5]])
        R.refutation_applies = lambda o: False
    R.assumptions += [
        'PROGMEM reads are plain loads (host stubs)',
        'Python encoders: ints are mathematical integers; the emitted C++ expression text is evaluated by a 40-line C constant-expression reader (vc/tables.py) with int arithmetic',
        'admissible values: AT/UNTIL 0..25:00 to the minute, offsets within +-16:00 to the minute, DST shifts -1:00..+2:45 in 15-minute steps, years 1873..2126 and the min/max markers; basic scope values are multiples of 15 minutes (truncated by the transformer)',
        'ground part: source lines are read by a small zic-syntax reader (vc/tables.py); synthetic "Anchor:" rules have no source line and are skipped; basic-scope AT/UNTIL/offset are compared after truncation to 15 minutes (documented truncation)',
    ]
    return check.finish(R, 'proof',
        'C++ decoders and broker accessors verified from the IR against decoder specs; Python encoders symbolically executed from '
        'the AST; for every admissible value decode_cpp(encode_py(v)) == v and the emitted value fits its field; ground: every '
        'shipped era/rule entry decodes to its recorded source line.')
