"""C13 -- SystemClock keeps exact time from millis(), across counter wrap-around (proof with ghost time)."""
import z3
from vc import check
from . import common
from contracts import clock


def run(R):
    common.load_ir(R)
    names = common.names_for(R, 'C13')
    obs = check.verify_functions(R, names)
    obs += common.avr_pass(R, names, leave_out=('SystemClock::getNow#',))
    obs += common.lemma_obligations(R, 'C13')
    check.discharge(R, obs, timeout=360)     # the budget matters only for obligations that fail: the exact-time counter-model of a broken getNow takes z3 about 110 s
    R.assumptions += [
        'ghost time: clockMillis() returns (true elapsed ms) mod 2^32 and is constant during one call; true elapsed ms < 2^62',
        'reference / backup Clock objects are distinct from the SystemClock object and do not modify it (their virtual methods are assumed contracts that only record the call)',
        'the value returned is representable: T + floor((m - m0)/1000) <= INT32_MAX',
    ]
    return check.finish(R, 'proof',
        'getNow (loop invariant + variant), syncNow, setNow, constructor and accessors of SystemClock are symbolically '
        'executed from the IR with ghost variables now/T0/M0; the statement (exact time for any schedule with gaps '
        '<= 64536 ms, monotone readings) is an induction whose base and step are lemmas over the two contracts.')
