"""C14 -- SystemClockLoop sync: applies good responses, backs off, never corrupts time (proof)."""
from vc import check
from . import common


def run(R):
    common.load_ir(R)
    names = common.names_for(R, 'C14')
    # loop() is verified against the contracts of getNow / syncNow: those are re-verified here too
    names += [n for n in common.names_for(R, 'C13') if n.endswith('getNow() const') or 'syncNow' in n]
    obs = check.verify_functions(R, names)
    obs += common.avr_pass(R, names, leave_out=('SystemClock::getNow#',))
    check.discharge(R, obs, timeout=120)
    R.assumptions += [
        'ghost time as in C13; for the loop() machine clockMillis() is the true elapsed time (no wrap of unsigned long: elapsed < 2^62 ms)',
        'reference and backup Clock objects are environment objects: isResponseReady returns any bool, readResponse any value; they do not modify the SystemClockLoop object',
        'AceCommon TimingStats::update is external and does not touch the clock',
        'liveness is stated as: a deadline D(state) that never moves later unless a request is issued, and strict progress of a 3-valued stage on every call after D',
    ]
    return check.finish(R, 'proof',
        'SystemClockLoop::loop() is verified from the IR as a transition relation: one postcondition clause per state and branch '
        '(response applied / ignored, back-off, timers), separation of requests, preservation of the machine invariant and a '
        'deadline + stage ranking argument for bounded re-request; for every reference-clock behaviour.')
