"""C15 -- printed forms are exact ISO-8601 and parse back to the same value (proof with a ghost output stream)."""
from vc import check
from . import common
from contracts import printing, reg


def run(R):
    common.load_ir(R)
    # inside ZonedDateTime::printTo / OffsetDateTime::printTo the nested printTo calls are executed in place (inline_in_callers);
    # TimeZone::printTo is an environment call here (its own behaviour is C08's): it appends one token
    reg.REG['ace_time::TimeZone::printTo(Print&) const'] = printing.Contract = None
    from vc.symex import Contract
    reg.REG['ace_time::TimeZone::printTo(Print&) const'] = Contract('ace_time::TimeZone::printTo(Print&) const', extern=True,
                                                                      model=printing._tz_print_model,
                                                                      note='environment here: appends the zone name (C08 covers which name)')
    names = common.names_for(R, 'C15')
    obs = check.verify_functions(R, names)
    obs += common.avr_pass(R, names)
    obs += common.lemma_obligations(R, 'C15')
    check.discharge(R, obs, timeout=120)
    R.assumptions += [
        'Print is an environment object with a ghost output sequence: print(char) appends it, print(int) appends the decimal numeral (four digits for 1000..9999), print(const char*/F()) appends the bytes up to NUL',
        'ace_common::printPad2To(v, pad) appends exactly two characters for v < 100 (AceCommon, external); strlen is libc',
        'TimeZone::printTo is treated as an environment call inside ZonedDateTime::printTo (one token for the zone name)',
        'the chainable parsers are given a pointer variable that does not overlap the text',
    ]
    return check.finish(R, 'proof',
        'printTo of LocalTime, LocalDateTime, TimeOffset, OffsetDateTime, ZonedDateTime verified from the IR against the exact '
        'character sequence (ghost output stream), the parsers against the digit positions of a symbolic buffer, too-short '
        'strings against the length check; parse(print(x)) == x are lemmas over the contracts.')
