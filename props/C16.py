"""C16 -- TimeZone is a faithful value: equality, manual offsets, save/restore (proof)."""
import z3
from vc import check
from . import common


def run(R):
    common.load_ir(R)
    names = common.names_for(R, 'C16')
    obs = check.verify_functions(R, names)
    obs += common.avr_pass(R, names)
    obs += common.lemma_obligations(R, 'C16')
    check.discharge(R, obs, timeout=60)
    R.assumptions += [
        'ghost views of table arrays (rule_from/rule_to/rule_month/era_until, reg_namekey/reg_zoneid/reg_zoneinfo) are DEFINED as the value stored at entry i of the unmodified table; instances of these definitions enter a proof only at the entry an accessor call touches (Contract.defs, assumed at call sites, never an obligation) -- a conservative definitional extension; the accessors themselves (rule(i), era(i), zoneInfo(i)) are verified for the address they return',
        'registry zone ids are pairwise distinct (ground obligation of C11 for the shipped registries; a hypothesis for other registries)',
        'virtual ZoneProcessorCache::getType() is a function of the cache object; the zone manager is verified for the <2> instantiations',
        'manual offset sum std + dst lies in (-32768, 32767] (16-bit representation of TimeOffset)',
        'save/restore lemma: the record written by the caller does not overlap the manager object or the registry',
    ]
    return check.finish(R, 'proof',
        'toTimeZoneData, createForTimeZoneData (switch on the numeric kType values as compiled), operator== on TimeZone and '
        'TimeZoneData, the factories and getZoneId are verified from the IR; save/restore is a lemma over these contracts and '
        'the C10 lookup contracts.')
