"""C17 -- TimePeriod, TimeOffset and mutation helpers keep stated ranges and inverses (proof)."""
import z3
from vc import check
from . import common
from contracts import period


def run(R):
    common.load_ir(R)
    names = common.names_for(R, 'C17')
    obs = check.verify_functions(R, names)
    obs += common.avr_pass(R, names)
    obs += common.lemma_obligations(R, 'C17')
    check.discharge(R, obs, timeout=120)

    def bad(c):
        return [('wrong-sign', c.result == -period.tp_signed_len(*period.tp_fields(c.old, c.this)))]
    if not common.run_canary(R, 'ace_time::TimePeriod::toSeconds() const', bad, 'toSeconds-negated'):
        R.log('canary not caught')
        check.write_evidence(R, 'proof', 'canary failed')
        return 3
    R.assumptions += ['ace_common::incrementMod / incrementModOffset are external (AceCommon is not in the repository): '
                      'the upstream definitions reproduced in stubs/AceCommon.h are executed in place',
                      'incrementYear: the documented domain of the helper is yearTiny in [0,99]; the all-byte-values clause is reported separately']
    return check.finish(R, 'proof',
        'TimePeriod / TimeOffset / *_mutation functions symbolically executed from the IR of the real headers for every '
        'argument and field value; ranges, inverses and the 15-minute cycle are postconditions or lemmas over the contracts.')
