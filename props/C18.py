"""C18 -- rule day resolution agrees in C++, Python and the calendar (proof)."""
import z3
from vc import check, symex, smt
from . import common
from contracts import ruleday


def replay_python(R, o):
    """Replay a counter-model of a Python-side obligation on the real transformer.calc_day_of_month (CPython) and on the
    real C++ calcStartDayOfMonth (native, ASan/UBSan), against a brute-force calendar search with datetime."""
    import datetime, subprocess, json, os, sys
    from vc import build, replay
    m = o.model or {}
    if 'py_year' not in m:
        return None
    y, mo, dow, dom = m['py_year'], m['py_month'], m['py_dow'], m['py_dom']
    code = ('import sys, json; sys.path.insert(0, %r); from tzdb.transformer import calc_day_of_month; '
            'print(json.dumps(calc_day_of_month(%d, %d, %d, %d)))' % (os.path.join(build.REPO, 'tools'), y, mo, dow, dom))
    p = subprocess.run([sys.executable, '-c', code], capture_output=True, text=True)
    detail = dict(input=dict(year=y, month=mo, on_day_of_week=dow, on_day_of_month=dom))
    # brute-force calendar answer
    def brute():
        if dom > 0:
            d = datetime.date(y, mo, dom)
            while d.isoweekday() != dow:
                d += datetime.timedelta(days=1)
        elif dom < 0:
            d = datetime.date(y, mo, -dom)
            while d.isoweekday() != dow:
                d -= datetime.timedelta(days=1)
        else:
            d = datetime.date(y + (mo == 12), mo % 12 + 1, 1) - datetime.timedelta(days=1)
            while d.isoweekday() != dow:
                d -= datetime.timedelta(days=1)
        return d
    want = brute()
    detail['calendar'] = [want.year, want.month, want.day]
    bad = False
    if p.returncode != 0:
        detail['python'] = 'raised: ' + p.stderr.strip().split('\n')[-1]
        bad = True
    else:
        got = json.loads(p.stdout)
        detail['python'] = got
        bad = (want.year != y) or got != [want.month, want.day] or not (1 <= got[0] <= 12)
    # the C++ function on the same input
    fn = None
    try:
        ex = R.ex_for()
        fn = ex.lookup_fn(ruleday.CALC)
        model = {'obs!a0': y & 0xffff, 'obs!a1': mo, 'obs!a2': dow, 'obs!a3': dom & 0xff}
        nat = replay.run_native(R.mod, fn, model, 'c18_py')
        detail['cpp'] = dict(status=nat['status'], out=nat.get('out'), stderr=nat.get('stderr', '')[:600])
        if nat['status'] == 'sanitizer':
            bad = True
        elif nat['status'] == 'ok':
            rb = nat['out']['result']
            if rb[:2] != [want.month, want.day] or want.year != y:
                bad = True
    except Exception as e:
        detail['cpp'] = 'replay failed: %r' % (e,)
    return bad, detail


def run(R):
    common.load_ir(R)
    names = common.names_for(R, 'C18')
    obs = check.verify_functions(R, names)
    obs += common.avr_pass(R, names)
    obs += common.lemma_obligations(R, 'C18')
    # Python side (pyvc): obligations over mathematical integers
    pyobs, tests, npaths = ruleday.python_obligations()
    R.functions['tools/tzdb/transformer.py:calc_day_of_month'] = dict(paths=npaths, generated=len(pyobs), engine='pyvc')
    R.functions['tools/tzdb/transformer.py:_create_rules_with_on_day_expansion (year-spill rejection tests)'] = dict(tests=tests, engine='pyvc (expression extraction)')
    for name, pc, goal in pyobs:
        if name.startswith('cover:'):
            s = z3.Solver()
            s.add(goal)
            R.covers.append((name, 'requires-satisfiable', str(s.check())))
            continue
        o = symex.Obligation(name, 'post' if '#calendar' in name or 'filter' in name else 'py', name.split('#')[0], None, list(pc), goal,
                             {'no_entry_state': True})
        obs.append(o)
    check.discharge(R, obs, timeout=120)
    R.custom_replay = replay_python
    R.assumptions += [
        'datetime.date(y, m, d) raises unless the date is valid and .isoweekday() is the ISO weekday of the proleptic Gregorian date (assumed contract of the standard library)',
        'Python int is the mathematical integers; // and % by positive constants are floor division',
        'the admitted set is the negation of the two "cannot shift" rejection tests extracted from the real transformer source; the surrounding string parsing / dict iteration is not modelled',
        'domain: years 1873..2126, |day-of-month| <= days in the month',
    ]
    return check.finish(R, 'proof',
        'BasicZoneProcessor::calcStartDayOfMonth (LLVM IR) and transformer.calc_day_of_month (Python AST) are both verified, for '
        'every admitted (year, month, weekday, day-of-month), against one semantic characterisation of the calendar answer '
        '(weekday equal, within the 7-day window on the right side of the limit date); uniqueness of that answer gives C++ == Python. '
        'The admission filter obligation uses the rejection tests extracted from the real transformer source.')
