"""C19 -- reference-data generators bracket every library transition and render losslessly (other: P loops + B)."""
import json
import os
import re
import subprocess
import sys
from concurrent.futures import ThreadPoolExecutor
import z3
from vc import check, symex, build
from vc.pyvc import PyOutOfReach
from . import common, zonescommon as zc
from contracts import refdata

HERE = os.path.dirname(os.path.dirname(os.path.abspath(__file__)))
TOOLS = os.path.join(build.REPO, 'tools')
WORKER = os.path.join(HERE, 'rtc', 'refdata_worker.py')
PY = '/venv/bin/python'


def all_zones():
    p = subprocess.run([PY, '-c', 'import pytz; print("\\n".join(pytz.all_timezones))'], capture_output=True, text=True)
    return [z for z in p.stdout.split('\n') if z.strip()]


def run_config(scratch, lib, sy, uy, hours, detect, zones, tag, slices=32):
    sl = [zones[i::slices] for i in range(slices)]
    sl = [s for s in sl if s]

    def one(i):
        out = os.path.join(scratch, '%s_%d.json' % (tag, i))
        p = subprocess.run([PY, WORKER, TOOLS, lib, str(sy), str(uy), str(hours), str(int(detect)), out] + sl[i], capture_output=True, text=True)
        if p.returncode:
            return dict(evaluations=0, transitions=0, zones=0, items=0, nproblems=1, problems=['%s worker slice %d crashed: %s' % (lib, i, p.stderr[-400:])], out=None)
        j = json.loads(p.stdout.strip().split('\n')[-1])
        j['out'] = out
        return j
    with ThreadPoolExecutor(16) as ex:
        rs = list(ex.map(one, range(len(sl))))
    return rs


def render_roundtrip(scratch, datafile, tag, compile_cpp):
    """ArduinoValidationGenerator on the generated data; the emitted C++ table read back (text and, for a subset, compiled) equals the items"""
    outdir = os.path.join(scratch, 'render_' + tag)
    os.makedirs(outdir, exist_ok=True)
    code = r"""
import sys, json, logging
logging.disable(logging.CRITICAL)
sys.path.insert(0, %r)
from validation.arvalgenerator import ArduinoValidationGenerator
vd = json.load(open(%r))
g = ArduinoValidationGenerator(invocation='verif', tz_version='x', scope='extended', db_namespace='zonedbx', validation_data=vd, blacklist={})
g.generate_files(%r)
""" % (TOOLS, datafile, outdir)
    p = subprocess.run([PY, '-c', code], capture_output=True, text=True)
    if p.returncode:
        return 0, ['renderer failed: ' + p.stderr[-400:]]
    data = json.load(open(datafile))['test_data']
    text = open(os.path.join(outdir, 'validation_data.cpp')).read()
    problems = []
    ev = 0
    # text read-back
    blocks = re.split(r'// Zone name: (\S+)\n', text)
    got = {}
    for name, body in zip(blocks[1::2], blocks[2::2]):
        rows = re.findall(r"\{\s*(-?\d+),\s*(-?\d+),\s*(-?\d+),\s*(-?\d+),\s*(\d+),\s*(\d+),\s*(\d+),\s*(\d+),\s*(\d+),\s*(\"[^\"]*\"|nullptr),\s*'(.)' \}", body)
        m = re.search(r'(\d+) /\*numItems\*/', body)
        got[name] = (rows, int(m.group(1)) if m else -1)
    for z, items in data.items():
        rows, n = got.get(z, ([], -1))
        ev += 1
        if n != len(items) or len(rows) != len(items):
            problems.append('render %s: %d items in the data, numItems %d, %d rows' % (z, len(items), n, len(rows)))
            continue
        for it, r in zip(items, rows):
            ev += 1
            want = (it['epoch'], it['total_offset'], it['dst_offset'], it['y'], it['M'], it['d'], it['h'], it['m'], it['s'], it['abbrev'], it['type'])
            have = (int(r[0]), int(r[1]) * 60, int(r[2]) * 60, int(r[3]), int(r[4]), int(r[5]), int(r[6]), int(r[7]), int(r[8]), None if r[9] == 'nullptr' else r[9][1:-1], r[10])
            if want != have:
                problems.append('render %s: item %r rendered as %r' % (z, want, have))
                break
    if set(got) != set(data):
        problems.append('render: zones in the file %d, zones in the data %d' % (len(got), len(data)))
    if compile_cpp:
        # compiled read-back: the table as the C++ compiler sees it
        names = sorted(data)
        norm = lambda s: re.sub(r'[^0-9a-zA-Z]', '_', s.replace('+', '_PLUS_'))
        main = ['#include <stdio.h>', '#include "validation_data.h"', 'using namespace ace_time; using namespace ace_time::zonedbx;',
                'static void dump(const char* n, const testing::ValidationData& d) { printf("Z %s %u\\n", n, (unsigned) d.numItems);',
                ' for (unsigned i = 0; i < d.numItems; i++) { const testing::ValidationItem& v = d.items[i];',
                '  printf("%ld %d %d %d %d %d %d %d %d %s %c\\n", (long) v.epochSeconds, v.timeOffsetMinutes, v.deltaOffsetMinutes, v.year, v.month, v.day, v.hour, v.minute, v.second, v.abbrev ? v.abbrev : "(null)", v.type); } }',
                'int main() {']
        hdr = open(os.path.join(outdir, 'validation_data.h')).read()
        syms = dict(zip(names, [None] * len(names)))
        decl = re.findall(r'extern const testing::ValidationData (kValidationData\w+);', hdr)
        if len(decl) != len(names):
            problems.append('render: %d declarations in validation_data.h for %d zones' % (len(decl), len(names)))
        for n, sym in zip(names, decl):       # both sorted by zone name by the generator
            main.append(' dump("%s", %s);' % (n, sym))
        main.append(' return 0; }')
        open(os.path.join(outdir, 'main.cpp'), 'w').write('\n'.join(main))
        exe = os.path.join(outdir, 'readback')
        c = subprocess.run(['clang++', '-std=c++11', '-O0', '-I', os.path.join(build.REPO, 'src'), '-I', os.path.join(HERE, 'stubs'), '-I', outdir,
                            os.path.join(outdir, 'main.cpp'), os.path.join(outdir, 'validation_data.cpp'), '-o', exe], capture_output=True, text=True)
        if c.returncode:
            problems.append('render: generated validation_data.cpp does not compile: ' + c.stderr[:400])
        else:
            o = subprocess.run([exe], capture_output=True, text=True).stdout.split('\n')
            cur = None
            k = 0
            for line in o:
                if line.startswith('Z '):
                    _, cur, n = line.split()
                    k = 0
                    if int(n) != len(data[cur]):
                        problems.append('compiled %s: numItems %s for %d items' % (cur, n, len(data[cur])))
                elif line.strip():
                    f = line.split(' ')
                    it = data[cur][k]
                    k += 1
                    ev += 1
                    want = [it['epoch'], it['total_offset'], it['dst_offset'], it['y'], it['M'], it['d'], it['h'], it['m'], it['s'], it['abbrev'] or '(null)', it['type']]
                    have = [int(f[0]), int(f[1]) * 60, int(f[2]) * 60] + [int(x) for x in f[3:9]] + [f[9], f[10]]
                    if want != have and len(problems) < 20:
                        problems.append('compiled %s: item %r read back as %r' % (cur, want, have))
    return ev, problems


def merge(files, out):
    td = {}
    base = None
    for f in files:
        j = json.load(open(f))
        base = base or j
        td.update(j['test_data'])
    base['test_data'] = td
    json.dump(base, open(out, 'w'))
    return out


def run(R):
    common.load_ir(R)
    obs = []
    try:
        pyobs, stats = refdata.all_obligations()
        for lib, st in stats.items():
            R.functions['tools/compare_%s/tdgenerator.py:TestDataGenerator.{binary_search_transition,_find_transitions,is_transition,only_dst,_create_test_item}' % lib] = dict(engine='pyvc', **st)
        for name, pc, goal in pyobs:
            kind = 'variant' if '#variant' in name else 'post'
            obs.append(symex.Obligation(name, kind, name.split('#')[0], None, list(pc), goal, {'no_entry_state': True}))
    except PyOutOfReach as e:
        R.out_of_reach.append(('tools/compare_*/tdgenerator.py', str(e)))
    scratch = os.path.join(build.scratch(), 'c19')
    os.makedirs(scratch, exist_ok=True)
    zones = all_zones()
    quick = R.tier == 'quick'
    configs = [('pytz', 2000, 2038, 22, True), ('pytz', 2001, 2010, 22, True), ('pytz', 2000, 2004, 22, False), ('pytz', 2003, 2012, 10, True),
               ('dateutil', 2000, 2038, 22, True), ('dateutil', 2001, 2010, 22, True)]
    if not quick:
        for uy in range(2001, 2038):
            configs.append(('pytz', 2000, uy, 22, True))
        for h in (1, 5, 12, 24, 36):
            configs.append(('pytz', 2000, 2038, h, True))
        configs += [('dateutil', 2000, uy, 22, True) for uy in (2004, 2008, 2012, 2019, 2020)] + [('dateutil', 2000, 2038, 12, False)]
    problems = []
    ev = ntr = 0
    render_inputs = []
    samples = []
    for ci, (lib, sy, uy, h, det) in enumerate(configs):
        zs = zones if (not quick or lib == 'pytz' or (sy, uy) != (2000, 2038)) else zones[::3]
        rs = run_config(scratch, lib, sy, uy, h, det, zs, 'c%d' % ci)
        for r in rs:
            ev += r['evaluations']
            ntr += r['transitions']
            problems += r['problems']
        if (sy, uy) == (2000, 2038) and h == 22 and det:
            render_inputs.append((lib, merge([r['out'] for r in rs if r.get('out')], os.path.join(scratch, 'all_%s.json' % lib))))
        samples.append(dict(library=lib, years=[sy, uy], every_hours=h, detect_dst=det, zones=len(zs), changes_checked=sum(r['transitions'] for r in rs)))
        for r in rs:
            if r.get('out') and os.path.exists(r['out']):
                os.remove(r['out'])
    R.bounded.append(dict(name='the real TestDataGenerator against the library\'s own transition table',
                          bound='%d configurations (library, year range inside 2000..2037, sampling interval, detect_dst) x all %d zones known to the installed pytz (dateutil: same names)' % (len(configs), len(zones)),
                          evaluations=ev, distinct_nontrivial=ntr,
                          rule='one evaluation = one table change checked for its A/B pair, one expected sample, or one item compared field by field with the library; distinct = table changes with a visible change of offset / dst',
                          samples=samples[:8] + [dict(problem=p[:300]) for p in problems[:3]]))
    rev = 0
    for lib, f in render_inputs:
        e2, p2 = render_roundtrip(scratch, f, lib, compile_cpp=(lib == 'pytz'))
        rev += e2
        problems += p2
    R.bounded.append(dict(name='ArduinoValidationGenerator rendering read back (text; compiled with clang++ for the pytz data set)', bound='the 2000..2038 data sets of both libraries, every zone and item',
                          evaluations=rev, distinct_nontrivial=len(render_inputs), rule='one evaluation per item (all eleven fields) or per zone header', samples=[dict(zone='Europe/London')]))

    def replay_unsampled(R, o):
        """the failing obligation 'part of the range left unsampled' replayed on the real generator: a change in the last interval"""
        if 'no-part-of-the-range-left-unsampled' not in o.name:
            return None
        lib = 'pytz' if ':pytz:' in o.name else 'dateutil'
        out = os.path.join(scratch, 'replay.json')
        p = subprocess.run([PY, WORKER, TOOLS, lib, '2001', '2010', '22', '1', out, 'Asia/Dhaka'], capture_output=True, text=True)
        j = json.loads(p.stdout.strip().split('\n')[-1]) if p.returncode == 0 else dict(problems=[p.stderr[-300:]], nproblems=0)
        return j['nproblems'] > 0, dict(how='%s rtc/refdata_worker.py %s %s 2001 2010 22 1 <out> Asia/Dhaka' % (PY, TOOLS, lib), result=j['problems'][:2])
    R.custom_replay = replay_unsampled
    check.discharge(R, obs, timeout=60)
    if problems:
        zc.violation(R, 'c19', problems, 'props/C19.py bounded part (rtc/refdata_worker.py)')
    R.assumptions += [
        'P, integer model of datetime (A): an aware datetime is the integer minute of its instant; + timedelta(minutes=k) is +k; (a - b) / timedelta(minutes=1) is a - b; astimezone keeps the instant; utcoffset() / dst() are uninterpreted functions of the instant; datetime(y,1,1,tzinfo=UTC) is JAN1(y) and t.year >= y <=> t >= JAN1(y)',
        'P proves: the search ends on adjacent minutes with a change between them inside the sampled interval and terminates; the sampled intervals tile [1 Jan start_year, 1 Jan until_year - 1 min] with no hole; every interval whose ends differ appends such a pair with the right only_dst flag; every field of an item built by _create_test_item is what the library reports for that datetime (timedelta.total_seconds(), the signed length). NOT provable from the code: at most one change per sampling interval, and changes whose two ends agree -- facts about the libraries, left to the bounded run',
        'BOUNDED (never counted as proved): completeness against the transition tables of the installed pytz 2026.3 / dateutil 2.9 (system zoneinfo), samples, field equality, and the renderer read-back',
        'tools/validator/zstdgenerator.py brackets the transitions of ZoneSpecifier (not of the library) one second apart; it is outside the bracket clause and is not covered',
        'table transitions at non-minute instants are skipped (none in 2000..2037)',
    ]
    return check.finish(R, 'exploration',
        'Search and sampling loops proved from the Python AST under an integer model of datetime; completeness against the '
        'installed libraries, samples, field equality and lossless rendering by bounded runs of the real generators.')
