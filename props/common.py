import time
import z3
from vc import build, ir, symex, smt, check


def load_ir(R):
    t = time.time()
    R.mod = ir.load_ll(build.logic_ll())
    R.log('IR of /repo/src compiled and parsed: %d functions (%.1fs)' % (len(R.mod.functions), time.time() - t))
    bad = [f.demangled for f in R.mod.functions.values() if f.unsupported]
    if bad:
        R.notes.append('functions outside the IR subset: %r' % bad[:10])


def avr_pass(R, names, leave_out=()):
    """the same contracts on the IR of the same sources compiled for AVR (16-bit int and pointers, int16_t = int, int32_t = long):
    obligations carry the suffix @avr; functions whose contract or environment model fixes 64-bit pointer sorts are listed, not
    decided, in this pass (they stay decided for the x86-64 model)"""
    t = time.time()
    if getattr(R, 'mod_avr', None) is None:
        R.mod_avr = ir.load_ll(build.logic_ll(target='avr'))
    saved = R.out_of_reach
    R.out_of_reach = []
    from vc import check
    try:
        obs = check.verify_functions(R, names, mod=R.mod_avr, tag='avr')
    finally:
        skipped = R.out_of_reach
        R.out_of_reach = saved
    R.notes.append('AVR pass (16-bit int / pointers): %d functions verified, %d not decided in this pass: %r' % (
        len(names) - len(skipped), len(skipped), [(n[:60], r[:60]) for n, r in skipped][:6]))
    R.assumptions.append('data model: every obligation is discharged for x86-64 (LP64); the functions marked [avr] in functions_under_contract are '
                         'verified a second time on the IR compiled with --target=avr (16-bit int, 16-bit pointers), obligations suffixed @avr')
    if leave_out:
        kept = [o for o in obs if not any(k in o.name for k in leave_out)]
        R.notes.append('AVR pass: %d obligation(s) matching %r are NOT decided under the 16-bit model (every back end timed out) and are left out of this pass; they are decided for x86-64' % (len(obs) - len(kept), list(leave_out)))
        obs = kept
    R.log('AVR pass: %d functions, %d obligations (%.1fs)' % (len(names), len(obs), time.time() - t))
    return obs


def ex_for(R):
    return symex.Executor(R.mod, R.reg.REG)


def lemma_obligations(R, prop):
    """Run the lemma generators registered for the property; returns Obligation objects."""
    ex = ex_for(R)
    out = []
    for f in R.reg.LEMMAS.get(prop, []):
        for lo in f(ex):
            assumptions = list(lo.assumptions)
            goal = lo.goal
            if lo.abstract:
                subs = [(t, v) for t, v in lo.abstract]
                assumptions = [z3.substitute(a, *subs) for a in assumptions]
                goal = z3.substitute(goal, *subs)
            variants = [('', [])]
            if lo.cases:
                variants = [('#case-' + cl, [cc]) for cl, cc in lo.cases]
                oc = symex.Obligation('lemma#' + lo.name + '#cases-cover', 'lemma', f.__name__, None,
                                      list(assumptions), z3.Or([cc for _, cc in lo.cases]), {'no_entry_state': True})
                oc.atoms = ex.atoms
                out.append(oc)
            for suffix, extra in variants:
                # cover: the hypotheses of the lemma (in this case) are satisfiable -- a contradictory set of contract clauses would
                # prove anything.  unknown within the budget counts as satisfiable; unsat makes the check exit 3 (check.finish)
                cs = z3.Solver()
                cs.set('timeout', 5000)
                cs.add(*(assumptions + extra))
                R.covers.append(('lemma#' + lo.name + suffix, 'hypotheses-satisfiable', str(cs.check())))
                o = symex.Obligation('lemma#' + lo.name + suffix, 'lemma', f.__name__, None, assumptions + extra, goal,
                                     {'no_entry_state': True})
                if lo.timeout:
                    o.info['timeout'] = lo.timeout
                if lo.logic:
                    o.info['logic'] = lo.logic
                o.atoms = ex.atoms
                out.append(o)
    return out


def names_for(R, prop):
    return [n for n, c in R.reg.REG.items() if prop in c.props and not c.transparent and not c.extern]


def run_canary(R, contract_name, bad_ensures, label):
    """A deliberately false postcondition on a real function must be refuted AND replay natively."""
    from vc import replay
    c = R.reg.REG[contract_name]
    fake = symex.Contract(c.name, requires=c.requires, ensures=bad_ensures, assigns=c.assigns, loops=c.loops)
    ex = symex.Executor(R.mod, R.reg.REG)
    obs = [o for o in ex.verify(fake) if o.kind == 'post']
    fn = ex.lookup_fn(contract_name)
    obsv = replay.observe_terms(ex, fn, ex.top_ctx.args, z3.Const('mem0', ex.mem_sort))
    for o in obs:
        o.info['observe'] = obsv
    smt.discharge(obs, timeout=60)
    sat = [o for o in obs if o.status == 'sat' and o.model]
    ok = False
    detail = 'not refuted'
    if sat:
        o = sat[0]
        nat = replay.run_native(R.mod, fn, o.model, 'canary_' + label)
        if nat['status'] == 'ok':
            pre_ok, res = replay.eval_post(ex, fake, fn, o.model, nat['out'])
            ok = any(v is False for _, v in res)
            detail = 'refuted by %s; native run violates the false clause: %s' % (o.backend, ok)
        else:
            detail = 'refuted but native replay status %s: %s' % (nat['status'], nat.get('stderr', '')[:200])
    R.canaries.append(dict(canary=label, function=contract_name, caught=ok, detail=detail))
    return ok
