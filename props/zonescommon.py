"""Shared driver of the bounded stand-ins that run the real processors natively against the zic oracle."""
import json
import os
import time

from rtc import native, runner
from vc import build

HERE = os.path.dirname(os.path.dirname(os.path.abspath(__file__)))

_state = {}


def harness(san):
    key = ('exe', san)
    if key not in _state:
        _state[key] = native.build_harness('zones', san=san, opt='-O1' if san else '-O2')
    return _state[key]


def oracles(R):
    if 'oracle' not in _state:
        t = time.time()
        _state['oracle'] = runner.oracles()
        R.log('zic oracle built from the table comments: %s (%.1fs)' % (
            {k: (v['zones'], v['transitions']) for k, v in _state['oracle'].items()}, time.time() - t))
    return _state['oracle']


def record(R, name, bound, res, rule, samples):
    """append a bounded block to the evidence and turn failures into a refutation / violation"""
    R.bounded.append(dict(name=name, bound=bound, evaluations=res['evaluations'], distinct_nontrivial=res['distinct'], rule=rule,
                          samples=samples + [dict(fail=f) for f in res['fails'][:3]]))
    problems = list(res['fails'])
    for c in res['crashed']:
        problems.append('harness slice %s exited %s: %s' % (c['slice'], c['rc'], c['stderr'][-600:]))
    return problems


def violation(R, key, problems, cmd):
    """write one replay file for a bounded failure and register the violation"""
    import re
    from vc import check
    known = [k for k in check.load_known() if k['property'] == R.prop and k.get('status') == 'known' and k['key'].startswith('bounded:')]
    rest = []
    for pr in problems:
        hit = None
        for k in known:
            if re.search(k['key'][8:], pr):
                hit = k
                break
        if hit is None:
            rest.append(pr)
        elif not any(kk is hit for kk, _ in R.known_hits):
            R.known_hits.append((hit, dict(first_match=pr)))
    problems = rest
    if not problems:
        return
    rdir = os.path.join(HERE, 'replays', R.prop)
    os.makedirs(rdir, exist_ok=True)
    path = os.path.join(rdir, 'bounded_%s.json' % key)
    with open(path, 'w') as f:
        json.dump(dict(kind='bounded stand-in failure on the real code', property=R.prop, first=problems[0], all=problems[:20], count=len(problems),
                       how_to_rerun=cmd), f, indent=1)
    R.violations.append(dict(key='bounded:%s:%s' % (key, problems[0][:160]), replay=path, replayed=True, what='bounded stand-in'))


def step_for(R):
    return 60 if R.tier == 'thorough' else 86400
