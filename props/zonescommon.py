"""Shared driver of the bounded stand-ins that run the real processors natively against the zic oracle."""
import json
import os
import time

from rtc import native, runner
from vc import build

HERE = os.path.dirname(os.path.dirname(os.path.abspath(__file__)))

_state = {}


def harness(san):
    key = ('exe', san)
    if key not in _state:
        _state[key] = native.build_harness('zones', san=san, opt='-O1' if san else '-O2')
    return _state[key]


def oracles(R):
    if 'oracle' not in _state:
        t = time.time()
        _state['oracle'] = runner.oracles()
        R.log('zic oracle built from the table comments: %s (%.1fs)' % (
            {k: (v['zones'], v['transitions']) for k, v in _state['oracle'].items()}, time.time() - t))
    return _state['oracle']


def record(R, name, bound, res, rule, samples):
    """append a bounded block to the evidence and turn failures into a refutation / violation"""
    R.bounded.append(dict(name=name, bound=bound, evaluations=res['evaluations'], distinct_nontrivial=res['distinct'], rule=rule,
                          samples=samples + [dict(fail=f) for f in res['fails'][:3]]))
    problems = list(res['fails'])
    for c in res['crashed']:
        problems.append('harness slice %s exited %s: %s' % (c['slice'], c['rc'], c['stderr'][-600:]))
    return problems


def violation(R, key, problems, cmd):
    """write one replay file for a bounded failure and register the violation"""
    import re
    from vc import check
    known = [k for k in check.load_known() if k['property'] == R.prop and k.get('status') == 'known' and k['key'].startswith('bounded:')]
    rest = []
    for pr in problems:
        hit = None
        for k in known:
            if re.search(k['key'][8:], pr):
                hit = k
                break
        if hit is None:
            rest.append(pr)
        elif not any(kk is hit for kk, _ in R.known_hits):
            R.known_hits.append((hit, dict(first_match=pr)))
    problems = rest
    if not problems:
        return
    rdir = os.path.join(HERE, 'replays', R.prop)
    os.makedirs(rdir, exist_ok=True)
    path = os.path.join(rdir, 'bounded_%s.json' % key)
    with open(path, 'w') as f:
        json.dump(dict(kind='bounded stand-in failure on the real code', property=R.prop, first=problems[0], all=problems[:20], count=len(problems),
                       how_to_rerun=cmd), f, indent=1)
    R.violations.append(dict(key='bounded:%s:%s' % (key, problems[0][:160]), replay=path, replayed=True, what='bounded stand-in'))


def step_for(R):
    return 60 if R.tier == 'thorough' else 86400


def abbrev_run(R, mode):
    """function-level bounded stand-in for createAbbreviation / copyAndReplace of one processor (rtc/abbrev.cpp, ASan+UBSan)"""
    import json as _json
    key = ('abbrev', True)
    if key not in _state:
        _state[key] = native.build_harness('abbrev', san=True)
    maxlen = 7 if R.tier == 'thorough' else 6
    rc, out, err = native.run(_state[key], [mode, str(maxlen)], timeout=3000)
    res = dict(evaluations=0, distinct=0, fails=[], crashed=[])
    for line in out.split('\n'):
        if line.startswith('FAIL'):
            res['fails'].append(line[5:].strip())
        elif line.startswith('SUMMARY'):
            j = _json.loads(line[8:])
            res['evaluations'], res['distinct'] = j['evaluations'], j['distinct']
    if rc not in (0, 1):
        res['crashed'].append(dict(slice='abbrev ' + mode, rc=rc, stderr=err))
    return record(R, '%s createAbbreviation / copyAndReplace vs the zic reading of FORMAT (function level, ASan+UBSan)' % mode,
                  'every FORMAT over {A,b,%%,/,+} of length 0..%d with at most one %% x buffer sizes {2,4,7} x DST shifts x letters (none, empty, one character%s)' % (
                      maxlen, ', "WAT", "LONGER"' if mode == 'extended' else ''), res,
                  'one evaluation = one call compared character by character with an independently written reading of FORMAT, plus termination and the byte after the buffer; distinct = formats',
                  [dict(format='A%b', letter='S', dst=True, expect='ASb'), dict(format='A/b+', dst=False, expect='A')])
