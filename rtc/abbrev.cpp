// Bounded stand-in (function level) for the abbreviation builders of both processors: every FORMAT over a small alphabet up to a
// stated length x DST shift x letter x buffer size, against the zic reading of FORMAT written independently below.
//   abbrev <basic|extended> <maxlen>
#include <Arduino.h>
#include <stdio.h>
#include <stdlib.h>
#include <string.h>
#include <string>
#include <vector>
#include <ace_time/BasicZoneProcessor.h>
#include <ace_time/ExtendedZoneProcessor.h>
using namespace ace_time;

static unsigned long long g_evals = 0, g_distinct = 0; static int g_fails = 0;

// zic: "%s" (stored as a single '%') is replaced by the LETTER of the rule in force ("-" / empty: nothing); "A/B" selects A for
// standard time and B for daylight time; anything else is the abbreviation itself.  A FORMAT with '%' and no rule keeps its text.
// The result is cut to the buffer (size - 1 characters).
static std::string spec(const std::string& fmt, bool dst, bool has_letter, const std::string& letter, size_t size) {
  std::string r;
  size_t pc = fmt.find('%');
  if (pc != std::string::npos) {
    if (!has_letter) r = fmt;
    else r = fmt.substr(0, pc) + letter + fmt.substr(pc + 1);
  } else {
    size_t sl = fmt.find('/');
    if (sl != std::string::npos) r = dst ? fmt.substr(sl + 1) : fmt.substr(0, sl);
    else r = fmt;
  }
  if (r.size() > size - 1) r.resize(size - 1);
  return r;
}

static void fail(const std::string& s) { if (g_fails < 8) printf("FAIL %s\n", s.c_str()); g_fails++; }

int main(int argc, char** argv) {
  if (argc < 3) return 3;
  bool ext = !strcmp(argv[1], "extended");
  int maxlen = atoi(argv[2]);
  const char alpha[] = {'A', 'b', '%', '/', '+'};
  std::vector<std::string> formats(1, "");
  size_t lo = 0;
  for (int len = 1; len <= maxlen; len++) {
    size_t hi = formats.size();
    for (size_t i = lo; i < hi; i++) for (char c : alpha) formats.push_back(formats[i] + c);
    lo = hi;
  }
  const size_t sizes[] = {2, 4, 7};
  const int deltas[] = {0, 60, -60, 30};
  for (const std::string& f : formats) {
    size_t pcs = 0; for (char c : f) pcs += (c == '%');
    if (pcs > 1) continue;                       // zic allows a single %s
    g_distinct++;
    for (size_t size : sizes) for (int delta : deltas) {
      if (ext && delta < 0) continue;            // the extended builder takes the shift as uint16_t: != 0 is what matters
      if (!ext) {
        const char letters[] = {'\0', 'S', '-', 'D'};
        for (char L : letters) {
          char buf[16]; memset(buf, '#', sizeof buf);
          BasicZoneProcessor::createAbbreviation(buf, (uint8_t) size, f.c_str(), (int16_t) delta, L);
          g_evals++;
          std::string want = spec(f, delta != 0, L != '\0', L == '-' ? std::string() : std::string(1, L), size);
          bool term = memchr(buf, '\0', size) != nullptr;
          if (!term || want != buf || buf[size] != '#') {
            char m[256]; snprintf(m, sizeof m, "basic createAbbreviation(size=%zu, format=\"%s\", delta=%d, letter=%d) = \"%.*s\"%s, zic reading \"%s\"", size, f.c_str(), delta, L, (int) size, buf, term ? "" : " (unterminated)", want.c_str());
            fail(m);
          }
        }
      } else {
        const char* letters[] = {nullptr, "", "S", "WAT", "LONGER"};
        for (const char* L : letters) {
          char buf[16]; memset(buf, '#', sizeof buf);
          ExtendedZoneProcessor::createAbbreviation(buf, (uint8_t) size, f.c_str(), (uint16_t) delta, L);
          g_evals++;
          std::string want = spec(f, delta != 0, L != nullptr, L ? L : "", size);
          bool term = memchr(buf, '\0', size) != nullptr;
          if (!term || want != buf || buf[size] != '#') {
            char m[256]; snprintf(m, sizeof m, "extended createAbbreviation(size=%zu, format=\"%s\", delta=%d, letter=%s) = \"%.*s\"%s, zic reading \"%s\"", size, f.c_str(), delta, L ? L : "(null)", (int) size, buf, term ? "" : " (unterminated)", want.c_str());
            fail(m);
          }
        }
      }
    }
  }
  printf("SUMMARY {\"evaluations\": %llu, \"distinct\": %llu, \"fails\": %d}\n", g_evals, g_distinct, g_fails);
  return g_fails ? 1 : 0;
}
