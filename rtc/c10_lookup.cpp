// Bounded stand-in for C10: registries of size 0..40 drawn from the shipped zones (sorted and shuffled),
// every present name, absent names before the first / between each adjacent pair / after the last,
// all ids and 0 / 0xFFFFFFFF, all indices 0..size+1.  Runs the real ZoneRegistrar under ASan with a watchdog.
#include <Arduino.h>
#include <signal.h>
#include <unistd.h>
#include <string>
#include <vector>
#include <algorithm>
#include <ace_time/common/compat.h>
#include <ace_time/internal/ZoneInfo.h>
#include <ace_time/internal/ZonePolicy.h>
#include <ace_time/internal/Brokers.h>
#include <ace_time/zonedb/zone_infos.h>
#include <ace_time/zonedb/zone_registry.h>
#include <ace_time/zonedbx/zone_infos.h>
#include <ace_time/zonedbx/zone_registry.h>
#include <ace_time/ZoneRegistrar.h>
using namespace ace_time;

static char g_case[512];
static void on_alarm(int) {
  printf("{\"fail\": \"hang\", \"case\": \"%s\"}\n", g_case);
  fflush(stdout);
  _exit(4);
}
static unsigned long long g_evals = 0, g_distinct = 0;
extern "C" void __sanitizer_set_death_callback(void (*)(void));
static void on_death() { printf("{\"fail\": \"sanitizer\", \"case\": \"%s\"}\n", g_case); fflush(stdout); }

template <typename ZI, typename REG, typename ZIB>
static int run_db(const char* db, const ZI* const* full, uint16_t fullSize, unsigned seed, int maxSize, int only_size, int only_variant) {
  for (int size = 0; size <= maxSize; size++) {
    if (only_size >= 0 && size != only_size) continue;
    for (int variant = 0; variant < 7; variant++) {   // 0,1: sorted windows at two offsets; 2,3: shuffled; 4,5,6: sorted with one inversion (last / first / middle pair)
      if (only_variant >= 0 && variant != only_variant) continue;
      std::vector<const ZI*> reg;
      uint16_t off = (variant % 2 == 0) ? 0 : (uint16_t)((seed * 37u + size * 11u) % (fullSize - maxSize));
      for (int i = 0; i < size; i++) reg.push_back(full[off + i]);
      if (variant == 4 && size >= 2) std::swap(reg[size - 1], reg[size - 2]);
      if (variant == 5 && size >= 2) std::swap(reg[0], reg[1]);
      if (variant == 6 && size >= 3) std::swap(reg[size / 2], reg[size / 2 - 1]);
      if (variant == 2 || variant == 3) {
        unsigned s = seed * 2654435761u + size * 97u + variant;
        for (int i = size - 1; i > 0; i--) { s = s * 1103515245u + 12345u; std::swap(reg[i], reg[(s >> 16) % (i + 1)]); }
      }
      REG registrar((uint16_t)size, reg.data());
      g_distinct++;
      // queries: present names, and absent names around every entry
      std::vector<std::string> queries;
      for (int i = 0; i < size; i++) {
        std::string n = ZIB(reg[i]).name();
        queries.push_back(n);
        queries.push_back(n + "\x01");                // just after n
        std::string before = n; before[before.size() - 1]--; before += "\x7e";   // just before n
        queries.push_back(before);
      }
      queries.push_back("A");
      queries.push_back("zzzz");
      queries.push_back("");
      for (auto& q : queries) {
        snprintf(g_case, sizeof g_case, "db=%s size=%d variant=%d seed=%u off=%u name=%s", db, size, variant, seed, off, q.c_str());
        uint16_t want = 0xffff;
        for (int i = 0; i < size; i++) if (q == ZIB(reg[i]).name()) { want = i; break; }
        alarm(10);
        uint16_t got = registrar.findIndexForName(q.c_str());
        const ZI* zi = registrar.getZoneInfoForName(q.c_str());
        alarm(0);
        g_evals++;
        bool ok = (want == 0xffff) ? (got == 0xffff && zi == nullptr)
                                   : (got != 0xffff && got < size && q == ZIB(reg[got]).name() && zi == reg[got]);
        if (!ok) { printf("{\"fail\": \"wrong-answer\", \"case\": \"%s\", \"got\": %u, \"want\": %u}\n", g_case, got, want); return 1; }
      }
      // ids
      std::vector<uint32_t> ids = {0u, 0xFFFFFFFFu};
      for (int i = 0; i < size; i++) ids.push_back(ZIB(reg[i]).zoneId());
      for (uint32_t id : ids) {
        snprintf(g_case, sizeof g_case, "db=%s size=%d variant=%d seed=%u off=%u id=%u", db, size, variant, seed, off, id);
        uint16_t want = 0xffff;
        for (int i = 0; i < size; i++) if (id == ZIB(reg[i]).zoneId()) { want = i; break; }
        alarm(10);
        uint16_t got = registrar.findIndexForId(id);
        const ZI* zi = registrar.getZoneInfoForId(id);
        alarm(0);
        g_evals++;
        if (got != want || zi != (want == 0xffff ? nullptr : reg[want])) {
          printf("{\"fail\": \"wrong-answer\", \"case\": \"%s\", \"got\": %u, \"want\": %u}\n", g_case, got, want); return 1; }
      }
      for (int i = 0; i <= size + 1; i++) {
        snprintf(g_case, sizeof g_case, "db=%s size=%d variant=%d seed=%u off=%u index=%d", db, size, variant, seed, off, i);
        const ZI* zi = registrar.getZoneInfoForIndex((uint16_t)i);
        g_evals++;
        if (zi != (i < size ? reg[i] : nullptr)) { printf("{\"fail\": \"wrong-answer\", \"case\": \"%s\"}\n", g_case); return 1; }
      }
    }
  }
  return 0;
}

int main(int argc, char** argv) {
  signal(SIGALRM, on_alarm);
  __sanitizer_set_death_callback(on_death);
  unsigned seed = argc > 1 ? (unsigned)atoi(argv[1]) : 1;
  int maxSize = argc > 2 ? atoi(argv[2]) : 40;
  int only_size = argc > 3 ? atoi(argv[3]) : -1;
  int only_variant = argc > 4 ? atoi(argv[4]) : -1;
  int rc = run_db<basic::ZoneInfo, BasicZoneRegistrar, basic::ZoneInfoBroker>("zonedb", zonedb::kZoneRegistry, zonedb::kZoneRegistrySize, seed, maxSize, only_size, only_variant);
  if (rc) return rc;
  rc = run_db<extended::ZoneInfo, ExtendedZoneRegistrar, extended::ZoneInfoBroker>("zonedbx", zonedbx::kZoneRegistry, zonedbx::kZoneRegistrySize, seed, maxSize, only_size, only_variant);
  if (rc) return rc;
  // the two full shipped registries
  rc = run_db<basic::ZoneInfo, BasicZoneRegistrar, basic::ZoneInfoBroker>("zonedb-full", zonedb::kZoneRegistry, zonedb::kZoneRegistrySize + 0, seed, 0, -1, -1);
  {
    BasicZoneRegistrar r(zonedb::kZoneRegistrySize, zonedb::kZoneRegistry);
    for (uint16_t i = 0; i < zonedb::kZoneRegistrySize; i++) {
      std::string n = basic::ZoneInfoBroker(zonedb::kZoneRegistry[i]).name();
      snprintf(g_case, sizeof g_case, "db=zonedb full name=%s", n.c_str());
      alarm(10);
      bool ok = r.findIndexForName(n.c_str()) == i && r.findIndexForName((n + "\x01").c_str()) == 0xffff;
      alarm(0);
      g_evals += 2;
      if (!ok) { printf("{\"fail\": \"wrong-answer\", \"case\": \"%s\"}\n", g_case); return 1; }
    }
    ExtendedZoneRegistrar rx(zonedbx::kZoneRegistrySize, zonedbx::kZoneRegistry);
    for (uint16_t i = 0; i < zonedbx::kZoneRegistrySize; i++) {
      std::string n = extended::ZoneInfoBroker(zonedbx::kZoneRegistry[i]).name();
      snprintf(g_case, sizeof g_case, "db=zonedbx full name=%s", n.c_str());
      alarm(10);
      bool ok = rx.findIndexForName(n.c_str()) == i && rx.findIndexForName((n + "\x01").c_str()) == 0xffff;
      alarm(0);
      g_evals += 2;
      if (!ok) { printf("{\"fail\": \"wrong-answer\", \"case\": \"%s\"}\n", g_case); return 1; }
    }
    g_distinct += 2;
  }
  printf("{\"fail\": null, \"evaluations\": %llu, \"registries\": %llu}\n", g_evals, g_distinct);
  return 0;
}
