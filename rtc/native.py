"""Bounded stand-in (rtc): build native harnesses against the real sources with ASan+UBSan."""
import glob
import os
import subprocess
from vc import build

SAN = ['-fsanitize=address,undefined', '-fno-sanitize-recover=undefined', '-fno-omit-frame-pointer']
HERE = os.path.dirname(os.path.abspath(__file__))


def lib_sources(with_db=True):
    src = os.path.join(build.REPO, 'src', 'ace_time')
    files = sorted(glob.glob(os.path.join(src, '*.cpp')) + glob.glob(os.path.join(src, 'common', '*.cpp')))
    if with_db:
        files += sorted(glob.glob(os.path.join(src, 'zonedb', '*.cpp')) + glob.glob(os.path.join(src, 'zonedbx', '*.cpp')))
    return files


_lib = {}


SAN_RECOVER = ['-fsanitize=address,undefined', '-fsanitize-recover=undefined', '-fno-omit-frame-pointer']


def build_lib(san=True, opt='-O1'):
    """Compile the library sources once per run into objects; returns list of .o paths."""
    key = (san, opt)
    if key in _lib:
        return _lib[key]
    flags = SAN_RECOVER if san == 'recover' else (SAN if san else [])
    d = os.path.join(build.scratch(), 'lib_%s_%s' % (san if isinstance(san, str) else ('san' if san else 'plain'), opt.strip('-')))
    os.makedirs(d, exist_ok=True)
    srcs = lib_sources() + [os.path.join(build.STUBS, 'stubs.cpp')]
    procs = []
    objs = []
    for s in srcs:
        o = os.path.join(d, os.path.basename(os.path.dirname(s)) + '_' + os.path.basename(s) + '.o')
        cmd = ['clang++'] + build.CXXFLAGS + [opt, '-g', '-c', s, '-o', o] + flags
        procs.append((subprocess.Popen(cmd, stdout=subprocess.PIPE, stderr=subprocess.PIPE, text=True), s))
        objs.append(o)
    for p, s in procs:
        out, err = p.communicate()
        if p.returncode:
            raise RuntimeError('compile of %s failed:\n%s' % (s, err[-3000:]))
    _lib[key] = objs
    return objs


def build_harness(name, san=True, opt='-O1', extra=()):
    src = os.path.join(HERE, name + '.cpp')
    exe = os.path.join(build.scratch(), name + ('_' + san if isinstance(san, str) else ('_san' if san else '')))
    objs = build_lib(san, opt)
    flags = SAN_RECOVER if san == 'recover' else (SAN if san else [])
    cmd = ['clang++'] + build.CXXFLAGS + [opt, '-g', '-fno-access-control', src] + objs + ['-o', exe] + flags + list(extra)
    r = subprocess.run(cmd, capture_output=True, text=True)
    if r.returncode:
        raise RuntimeError('harness %s failed to build:\n%s' % (name, r.stderr[-4000:]))
    return exe


def run(exe, args=(), timeout=600, env=None):
    e = dict(os.environ, ASAN_OPTIONS='detect_leaks=0', UBSAN_OPTIONS='print_stacktrace=1')
    if env:
        e.update(env)
    try:
        p = subprocess.run([exe] + list(args), capture_output=True, text=True, timeout=timeout, env=e)
        return p.returncode, p.stdout, p.stderr
    except subprocess.TimeoutExpired as ex:
        return -999, (ex.stdout or b'').decode() if isinstance(ex.stdout, bytes) else (ex.stdout or ''), 'TIMEOUT after %ds' % timeout


def build_custom_db(name, gen_root, tag, opt='-O1'):
    """Build harness <name>.cpp against the library WITHOUT the shipped zonedb/zonedbx sources, with the generated tables under
    <gen_root>/ace_time/{zonedb,zonedbx}/ taking their place (headers found first on the include path)."""
    d = os.path.join(build.scratch(), 'libgen_' + tag)
    os.makedirs(d, exist_ok=True)
    flags = ['clang++'] + [f for f in build.CXXFLAGS if not f.startswith('-I')] + ['-I' + build.STUBS, '-I' + gen_root, '-I' + os.path.join(build.REPO, 'src')]
    srcs = lib_sources(with_db=False) + [os.path.join(build.STUBS, 'stubs.cpp')]
    for ns in ('zonedb', 'zonedbx'):
        srcs += sorted(glob.glob(os.path.join(gen_root, 'ace_time', ns, '*.cpp')))
    procs, objs = [], []
    for s_ in srcs:
        o = os.path.join(d, os.path.basename(os.path.dirname(s_)) + '_' + os.path.basename(s_) + '.o')
        procs.append((subprocess.Popen(flags + [opt, '-c', s_, '-o', o], stdout=subprocess.PIPE, stderr=subprocess.PIPE, text=True), s_))
        objs.append(o)
    for p_, s_ in procs:
        out, err = p_.communicate()
        if p_.returncode:
            raise RuntimeError('compile of %s failed:\n%s' % (s_, err[-3000:]))
    exe = os.path.join(d, name)
    r = subprocess.run(flags + [opt, '-fno-access-control', os.path.join(HERE, name + '.cpp')] + objs + ['-o', exe], capture_output=True, text=True)
    if r.returncode:
        raise RuntimeError('harness %s (generated tables) failed to build:\n%s' % (name, r.stderr[-4000:]))
    return exe
