"""zic/zdump oracle for the bounded stand-ins: the Zone/Rule lines recorded in the comments beside each table entry
are written to a scratch file, compiled with /usr/sbin/zic -b fat and read back with zdump -v -c 1999,2051."""
import calendar
import os
import re
import subprocess
import time

from vc import build, tables

MON = {m: i + 1 for i, m in enumerate(['Jan', 'Feb', 'Mar', 'Apr', 'May', 'Jun', 'Jul', 'Aug', 'Sep', 'Oct', 'Nov', 'Dec'])}
EPOCH_2000 = 946684800


def write_source(T, path):
    """T: tables.Tables. Returns number of zones written."""
    with open(path, 'w') as f:
        for pname, pol in T.policies.items():
            for raw, _ in pol['rules']:
                if raw.startswith('Anchor:'):
                    continue
                f.write(raw + '\n')
        for zname, z in T.zones.items():
            first = True
            for raw, _ in z['eras']:
                if first:
                    f.write('Zone %s %s\n' % (zname, raw))
                    first = False
                else:
                    f.write('\t\t\t%s\n' % raw)
    return len(T.zones)


_LINE = re.compile(r'^\S+\s+\w+ (\w+)\s+(\d+) (\d+):(\d+):(\d+) (-?\d+) UT = \w+ \w+\s+\d+ \d+:\d+:\d+ -?\d+ (\S+) isdst=(\d) gmtoff=(-?\d+)')


def zdump(zdir, zone, lo=1999, hi=2051):
    p = subprocess.run(['zdump', '-v', '-c', '%d,%d' % (lo, hi), os.path.join(zdir, zone)], capture_output=True, text=True)
    rows = []
    for line in p.stdout.split('\n'):
        m = _LINE.match(line)
        if not m:
            continue
        mon, day, hh, mm, ss, year, abbr, isdst, off = m.groups()
        t = calendar.timegm((int(year), MON[mon], int(day), int(hh), int(mm), int(ss)))
        rows.append((t, int(off), int(isdst), abbr))
    return rows


def state_at(path, t):
    """(gmtoff, isdst, abbreviation) libc reports for the compiled zone file at instant t"""
    old = os.environ.get('TZ')
    os.environ['TZ'] = ':' + path
    time.tzset()
    lt = time.localtime(t)
    r = (lt.tm_gmtoff, 1 if lt.tm_isdst > 0 else 0, lt.tm_zone)
    if old is None:
        del os.environ['TZ']
    else:
        os.environ['TZ'] = old
    time.tzset()
    return r


def transitions(rows, init):
    """from zdump rows (instants with the values in force) to: list of (first second of new state, off, isdst, abbr)"""
    out = []
    for a, b in zip(rows, rows[1:]):
        if b[0] == a[0] + 1 and a[1:] != b[1:]:
            out.append((b[0],) + b[1:])
    return out


def build_oracle(db, outdir):
    """Compile the reconstructed source and dump every zone; writes <outdir>/<db>.oracle (text) and returns stats.
    Format per zone:  Z <name> <n> <init_off> <init_dst> <init_abbr>  then n lines  T <epoch2000> <off> <dst> <abbr>"""
    T = tables.Tables(db)
    src = os.path.join(outdir, db + '_source.txt')
    zdir = os.path.join(outdir, db + '_zic')
    os.makedirs(zdir, exist_ok=True)
    write_source(T, src)
    r = subprocess.run(['/usr/sbin/zic', '-b', 'fat', '-d', zdir, src], capture_output=True, text=True)
    if r.returncode != 0:
        raise RuntimeError('zic rejected the reconstructed source: ' + r.stderr[-2000:])
    warnings = r.stderr.strip()
    names = [n for n in T.zones]
    var_to_name = {z['var']: n for n, z in T.zones.items()}
    order = [var_to_name[v] for v in T.registry]
    path = os.path.join(outdir, db + '.oracle')
    ntr = 0
    with open(path, 'w') as f:
        for n in order:
            init = state_at(os.path.join(zdir, n), 915148800)     # 1999-01-01T00:00:00Z
            tr = transitions(zdump(zdir, n), init)
            f.write('Z %s %d %d %d %s\n' % (n, len(tr), init[0], init[1], init[2]))
            for (t, off, dst, ab) in tr:
                f.write('T %d %d %d %s\n' % (t - EPOCH_2000, off, dst, ab))
            ntr += len(tr)
    return dict(zones=len(order), transitions=ntr, path=path, zic_warnings=warnings[:500], source=src)


def oracle_for_source(src, outdir, zones, tag='src'):
    """zic + zdump on an arbitrary TZ source file for the given zone names; returns [(name, segs)] like pyzones.load_oracle"""
    zdir = os.path.join(outdir, tag + '_zic')
    os.makedirs(zdir, exist_ok=True)
    r = subprocess.run(['/usr/sbin/zic', '-b', 'fat', '-d', zdir, src], capture_output=True, text=True)
    if r.returncode != 0:
        raise RuntimeError('zic rejected the source: ' + r.stderr[-1500:])
    out = []
    for n in zones:
        init = state_at(os.path.join(zdir, n), 915148800)
        if not init[2]:
            raise RuntimeError('the C library cannot read the zic output for %s (degenerate zone); not usable as an oracle' % n)
        tr = transitions(zdump(zdir, n), init)
        segs = [(-(1 << 60), init[0], init[1], init[2])] + [(t - EPOCH_2000, off, dst, ab) for (t, off, dst, ab) in tr]
        out.append((n, segs))
    return out
