"""Bounded stand-in for C04 (and the Python half of C03): the real tools/zonedb/zone_specifier.ZoneSpecifier on zone data
decoded from the shipped C++ tables, against the zic oracle and against what the C++ processor selects."""
import os
import sys
from vc import tables, build


def decode_db(db='zonedbx'):
    """zonedbx tables -> the Python data model of tools/zonedb (ZONE_INFO dicts), through the decoders proved under C12"""
    T = tables.Tables(db)
    ext = db == 'zonedbx'
    policies = {}
    for pname, pol in T.policies.items():
        rules = []
        for raw, f in pol['rules']:
            v = {k: tables.ceval(x) for k, x in f.items()}
            mod = v['atTimeModifier']
            at_min = 15 * v['atTimeCode'] + (mod & 0x0f)
            suffix = {0x00: 'w', 0x10: 's', 0x20: 'u'}[mod & 0xf0]
            delta_min = (((v['deltaCode'] % 256) & 0x0f) - 4) * 15 if ext else v['deltaCode'] * 15
            letter = chr(v['letter']) if v['letter'] >= 32 else pol['letters'][v['letter']]
            rules.append({
                'fromYear': 0 if v['fromYearTiny'] <= -127 else v['fromYearTiny'] + 2000,
                'toYear': 9999 if v['toYearTiny'] == 126 else (0 if v['toYearTiny'] <= -127 else v['toYearTiny'] + 2000),
                'inMonth': v['inMonth'], 'onDayOfWeek': v['onDayOfWeek'], 'onDayOfMonth': v['onDayOfMonth'],
                'atSeconds': at_min * 60, 'atTimeSuffix': suffix, 'deltaSeconds': delta_min * 60, 'letter': letter})
        policies[pname] = {'name': pname, 'rules': rules}
    infos = {}
    for zname, z in T.zones.items():
        eras = []
        for raw, f in z['eras']:
            v = {k: tables.ceval(x) for k, x in f.items() if k not in ('zonePolicy', 'format')}
            dcu = v['deltaCode'] % 256
            if ext:
                off_min = v['offsetCode'] * 15 + ((dcu & 0xf0) >> 4)
                delta_min = ((dcu & 0x0f) - 4) * 15
            else:
                off_min, delta_min = v['offsetCode'] * 15, v['deltaCode'] * 15
            pol = f['zonePolicy']
            if pol == 'nullptr':
                zp = ':' if delta_min != 0 else '-'
            else:
                zp = policies[pol.replace('&kPolicy', '')]
            mod = v['untilTimeModifier']
            eras.append({
                'offsetSeconds': off_min * 60, 'zonePolicy': zp, 'rulesDeltaSeconds': delta_min * 60 if pol == 'nullptr' else 0,
                'format': f['format'].strip('"').replace('%', '%s'),
                'untilYear': 10000 if v['untilYearTiny'] == 127 else v['untilYearTiny'] + 2000,
                'untilMonth': v['untilMonth'], 'untilDay': v['untilDay'],
                'untilSeconds': (15 * v['untilTimeCode'] + (mod & 0x0f)) * 60,
                'untilTimeSuffix': {0x00: 'w', 0x10: 's', 0x20: 'u'}[mod & 0xf0]})
        infos[zname] = {'name': zname, 'eras': eras}
    var_to_name = {z['var']: n for n, z in T.zones.items()}
    order = [var_to_name[v] for v in T.registry]
    return infos, order


def load_oracle(path):
    zones = []
    with open(path) as f:
        for line in f:
            p = line.split()
            if p[0] == 'Z':
                zones.append((p[1], [(-(1 << 60), int(p[3]), int(p[4]), p[5])]))
            else:
                zones[-1][1].append((int(p[1]), int(p[2]), int(p[3]), p[4]))
    return zones


def worker(args):
    """one slice of zones x option combinations; returns (evaluations, distinct, fails)"""
    tools, infos, oracle_slice, combos, years_step, wall_dump = args
    if tools not in sys.path:
        sys.path.insert(0, tools)
    import logging
    logging.disable(logging.CRITICAL)
    from zonedb.zone_specifier import ZoneSpecifier
    from datetime import datetime, timedelta
    END50 = 1577923200
    ev = dist = 0
    fails = []
    for (name, segs) in oracle_slice:
        probes = []
        for (t, off, dst, ab) in segs[1:]:
            if 86400 <= t < END50 - 86400:
                probes += [t - 1, t, t + 1]
        for y in range(2000, 2050, years_step):
            for mth in (1, 4, 7, 10):
                probes.append(int((datetime(y, mth, 15) - datetime(2000, 1, 1)).total_seconds()))
        probes.sort()
        walls = wall_dump.get(name, [])
        for (vm, inplace, opt) in combos:
            zs = ZoneSpecifier(infos[name], viewing_months=vm, in_place_transitions=inplace, optimize_candidates=opt)
            dist += 1
            k = 0
            for t in probes:
                while k + 1 < len(segs) and segs[k + 1][0] <= t:
                    k += 1
                want = segs[k]
                try:
                    got = zs.get_timezone_info_for_seconds(t)
                    g = (got.total_offset, got.dst_offset, got.abbrev)
                except BaseException as e:       # the reference implementation calls sys.exit on internal errors
                    g = ('exception', repr(e)[:80], '')
                ev += 1
                if g[0] != want[1] or (g[1] != 0) != (want[2] != 0) or g[2] != want[3]:
                    if len(fails) < 5:
                        fails.append('python ZoneSpecifier(months=%d,in_place=%s,optimized=%s) %s t=%d got %r want %r' % (vm, inplace, opt, name, t, g, want[1:]))
            # local date-time selection: same offset as the C++ first-stage selection
            for (w, cpp_off) in walls:
                dt = datetime(2000, 1, 1) + timedelta(seconds=w)
                try:
                    info = zs.get_timezone_info_for_datetime(dt)
                    po = info.total_offset // 60 if info else 99999
                except BaseException as e:
                    po = 'exception %r' % (e,)
                ev += 1
                if po != cpp_off:
                    if len(fails) < 5:
                        fails.append('python vs C++ selection for local %s in %s (months=%d,in_place=%s,optimized=%s): python %r, C++ %r' % (dt.isoformat(), name, vm, inplace, opt, po, cpp_off))
    return ev, dist, fails
