"""Bounded stand-in for C19, run under /venv/bin/python (pytz / dateutil live there).

argv: <repo tools dir> <lib: pytz|dateutil> <start_year> <until_year> <sampling hours> <detect_dst 0|1> <outfile> zone...
Runs the real TestDataGenerator of tools/compare_<lib>/tdgenerator.py on the zones and checks, independently of the
generator's own search, against the library's transition table:
  (1) every change of utcoffset (and of dst when requested) inside [start_year, until_year) has items at T-60s and T
  (2) monthly (1st, 00:00 local) and year-end (31 Dec 23:59 local) samples are present
  (3) every item's fields equal what the library reports at the item's epoch
Writes {zone: items} to <outfile> (for the renderer check) and prints one JSON line with counts and problems."""
import json
import sys
import logging
from datetime import datetime, timedelta, timezone

logging.disable(logging.CRITICAL)
tools, lib, start_year, until_year, hours, detect, outfile = sys.argv[1:8]
zones = sys.argv[8:]
start_year, until_year, hours, detect = int(start_year), int(until_year), int(hours), bool(int(detect))
sys.path.insert(0, tools)
E2000 = 946684800
UTC = timezone.utc

if lib == 'pytz':
    import pytz
    from compare_pytz.tdgenerator import TestDataGenerator

    def get_tz(name):
        return pytz.timezone(name)

    def table(tz):
        # pytz: _utc_transition_times are naive UTC datetimes; static zones have none
        out = []
        for t in getattr(tz, '_utc_transition_times', []):
            if t.year < 1900:
                continue
            out.append(int((t - datetime(1970, 1, 1)).total_seconds()))
        return out
else:
    import dateutil
    from dateutil.tz import gettz
    from compare_dateutil.tdgenerator import TestDataGenerator

    def get_tz(name):
        return gettz(name)

    def table(tz):
        return [int(t) for t in getattr(tz, '_trans_list_utc', [])]


def at(tz, unix):
    dt = datetime.fromtimestamp(unix, UTC).astimezone(tz)
    return dt


def key(dt):
    return (dt.utcoffset(), dt.dst() if detect else None)


gen = TestDataGenerator(start_year=start_year, until_year=until_year, sampling_interval=hours, detect_dst_transition=detect)
gen.create_test_data(zones)
data = gen.get_validation_data()['test_data']
lo = int(datetime(start_year, 1, 1, tzinfo=UTC).timestamp())
hi = int(datetime(until_year, 1, 1, tzinfo=UTC).timestamp())
problems = []
ev = 0
ntrans = 0
for z in zones:
    tz = get_tz(z)
    if tz is None or z not in data:
        if tz is not None:
            problems.append('%s %s: zone known to the library but no items produced' % (lib, z))
        continue
    items = data[z]
    by_epoch = {it['epoch']: it for it in items}
    if sorted(by_epoch) != [it['epoch'] for it in items]:
        problems.append('%s %s: items not strictly ordered by epoch' % (lib, z))
    # (1) transitions of the library's own table
    for T in table(tz):
        if not (lo < T < hi):
            continue
        if T % 60:
            continue            # sub-minute transition instants do not occur in 2000..; stated in the evidence
        a, b = at(tz, T - 60), at(tz, T)
        if key(a) == key(b):
            continue            # table entry without a visible change (e.g. only the abbreviation changes)
        ntrans += 1
        ev += 1
        la, rb = by_epoch.get(T - 60 - E2000), by_epoch.get(T - E2000)
        if la is None or rb is None:
            problems.append('%s %s: change at %s (%s -> %s) not bracketed: item at T-60s %s, item at T %s [range %d..%d, every %dh]' % (
                lib, z, datetime.fromtimestamp(T, UTC).isoformat(), key(a)[0], key(b)[0], 'present' if la else 'MISSING', 'present' if rb else 'MISSING',
                start_year, until_year, hours))
        else:
            only_dst = a.utcoffset() == b.utcoffset()
            want = ('a', 'b') if only_dst else ('A', 'B')
            if (la['type'], rb['type']) != want:
                problems.append('%s %s: pair at %s tagged %s%s, expected %s%s' % (lib, z, datetime.fromtimestamp(T, UTC).isoformat(), la['type'], rb['type'], want[0], want[1]))
    # (2) samples
    walls = {(it['y'], it['M'], it['d'], it['h'], it['m'], it['s']) for it in items}
    days = {(it['y'], it['M'], it['d']) for it in items}
    for y in range(start_year, until_year):
        for m in range(1, 13):
            ev += 1
            if (y, m, 1, 0, 0, 0) not in walls and (y, m, 1) not in days:
                problems.append('%s %s: no monthly sample for %04d-%02d-01' % (lib, z, y, m))
        ev += 1
        if (y, 12, 31, 23, 59, 0) not in walls and (y, 12, 31) not in days and (y + 1, 1, 1) not in days:
            problems.append('%s %s: no year-end sample for %d' % (lib, z, y))
    # (3) fields
    for it in items:
        ev += 1
        dt = at(tz, it['epoch'] + E2000)
        want = dict(total_offset=int(dt.utcoffset().total_seconds()), dst_offset=int(dt.dst().total_seconds()), y=dt.year, M=dt.month, d=dt.day,
                    h=dt.hour, m=dt.minute, s=dt.second, abbrev=dt.tzname())
        bad = {k: (it[k], v) for k, v in want.items() if it[k] != v}
        if bad:
            problems.append('%s %s: item at epoch %d differs from the library: %r' % (lib, z, it['epoch'], bad))
        if it['type'] not in ('A', 'B', 'a', 'b', 'S', 'Y'):
            problems.append('%s %s: item at epoch %d has type %r' % (lib, z, it['epoch'], it['type']))
with open(outfile, 'w') as f:
    json.dump(dict(start_year=start_year, until_year=until_year, source=lib, version='x', has_valid_abbrev=True, has_valid_dst=True, test_data=data), f)
print(json.dumps(dict(evaluations=ev, transitions=ntrans, zones=len([z for z in zones if z in data]), items=sum(len(v) for v in data.values()),
                      problems=problems[:40], nproblems=len(problems))))
