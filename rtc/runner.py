"""Parallel driver for the zones harness (16 workers, slices of the registry)."""
import json
import os
import re
import subprocess
from concurrent.futures import ThreadPoolExecutor

from . import native, oracle
from vc import build

JOBS = int(os.environ.get('VERIF_JOBS', '16'))
SIZES = {'zonedb': 268, 'zonedbx': 387}


def oracles():
    d = os.path.join(build.scratch(), 'oracle')
    os.makedirs(d, exist_ok=True)
    out = {}
    for db in ('zonedb', 'zonedbx'):
        out[db] = oracle.build_oracle(db, d)
    return out


def run_sliced(exe, mode_args, nzones, tail_args, timeout=3000, jobs=None, env=None):
    """mode_args + [zlo, zhi] + tail_args for slices of [0, nzones). Returns dict(evaluations, distinct, fails[list of str], crashed[list])."""
    jobs = jobs or JOBS
    slices = []
    per = max(1, (nzones + jobs * 3 - 1) // (jobs * 3))
    for lo in range(0, nzones, per):
        slices.append((lo, min(nzones, lo + per)))

    def one(sl):
        rc, out, err = native.run(exe, list(mode_args) + [str(sl[0]), str(sl[1])] + list(tail_args), timeout=timeout, env=env)
        return sl, rc, out, err
    res = dict(evaluations=0, distinct=0, fails=[], crashed=[])
    with ThreadPoolExecutor(max_workers=jobs) as ex:
        for sl, rc, out, err in ex.map(one, slices):
            m = re.search(r'SUMMARY (\{.*\})', out)
            if m:
                j = json.loads(m.group(1))
                res['evaluations'] += j['evaluations']
                res['distinct'] += j['distinct']
            for line in out.split('\n'):
                if line.startswith('FAIL '):
                    res['fails'].append(line[5:])
            if rc not in (0, 1) or (rc == 1 and not m):
                res['crashed'].append(dict(slice=sl, rc=rc, stderr=err[-1500:], args=list(mode_args) + [str(sl[0]), str(sl[1])] + list(tail_args)))
    return res
