// Bounded stand-in harness (rtc) for C01 / C02 / C07 / C08 / C09: the real processors, natively, against the
// zic/zdump oracle reconstructed from the table comments.  Never counted as proved.
//
//   zones c01 <zonedb|zonedbx> <oracle> <zlo> <zhi> <step>      offset / dst flag / abbreviation at every probed instant
//   zones c02x <oracle-zonedb> <zlo> <zhi> <step>               basic vs extended on every common zone
//   zones c07 <zonedb|zonedbx> <oracle> <zlo> <zhi> <window>    local time resolution around every transition
//   zones c08 <zonedb|zonedbx> <zlo> <zhi> <seed> <nseq>        history independence
//   zones c09 <zonedb|zonedbx> <zlo> <zhi> <seed>               robustness, buffer high-water marks
#include <Arduino.h>
#include <stdio.h>
#include <stdlib.h>
#include <string.h>
#include <string>
#include <vector>
#include <algorithm>
#include <ace_time/common/compat.h>
#include <ace_time/internal/ZoneContext.h>
#include <ace_time/internal/ZoneInfo.h>
#include <ace_time/internal/ZonePolicy.h>
#include <ace_time/zonedb/zone_policies.h>
#include <ace_time/zonedb/zone_infos.h>
#include <ace_time/zonedb/zone_registry.h>
#include <ace_time/zonedbx/zone_policies.h>
#include <ace_time/zonedbx/zone_infos.h>
#include <ace_time/zonedbx/zone_registry.h>
#include <ace_time/ZoneRegistrar.h>
#include <ace_time/LocalDate.h>
#include <ace_time/LocalDateTime.h>
#include <ace_time/TimeOffset.h>
#include <ace_time/OffsetDateTime.h>
#include <ace_time/ZoneProcessor.h>
#include <ace_time/BasicZoneProcessor.h>
#include <ace_time/ExtendedZoneProcessor.h>
#include <ace_time/ZoneProcessorCache.h>
#include <ace_time/ZoneManager.h>
#include <ace_time/TimeZoneData.h>
#include <ace_time/TimeZone.h>
#include <ace_time/BasicZone.h>
#include <ace_time/ExtendedZone.h>
#include <ace_time/ZonedDateTime.h>
using namespace ace_time;

extern std::string g_stub_out;
#if ACE_TIME_VERIF_HOOKS
extern "C" { extern unsigned long ace_time_verif_basic_dropped; }
#endif

static const long long END50 = 1577923200LL;  // 2050-01-01T00:00:00Z in AceTime epoch seconds

struct Seg { long long t; int off; int dst; std::string abbr; };
struct OZone { std::string name; std::vector<Seg> segs; };   // segs[0].t = -inf

static std::vector<OZone> load_oracle(const char* path) {
  std::vector<OZone> out;
  FILE* f = fopen(path, "r");
  if (!f) { fprintf(stderr, "cannot open oracle %s\n", path); exit(3); }
  char line[512];
  while (fgets(line, sizeof line, f)) {
    char name[256], ab[64];
    long long t; int n, off, dst;
    if (line[0] == 'Z' && sscanf(line, "Z %255s %d %d %d %63s", name, &n, &off, &dst, ab) == 5) {
      out.push_back(OZone{name, {}});
      out.back().segs.push_back(Seg{-(1LL << 60), off, dst, ab});
    } else if (line[0] == 'T' && sscanf(line, "T %lld %d %d %63s", &t, &off, &dst, ab) == 4) {
      out.back().segs.push_back(Seg{t, off, dst, ab});
    }
  }
  fclose(f);
  return out;
}

static const Seg& seg_at(const OZone& z, long long t) {
  size_t lo = 0, hi = z.segs.size();
  while (hi - lo > 1) { size_t mid = (lo + hi) / 2; if (z.segs[mid].t <= t) lo = mid; else hi = mid; }
  return z.segs[lo];
}

static unsigned long long g_evals = 0, g_distinct = 0;
static int g_fails = 0;
static const int MAX_FAILS = 5;
static std::string g_first_fail;

static void fail(const std::string& s) {
  if (g_fails < MAX_FAILS) printf("FAIL %s\n", s.c_str());
  if (g_fails == 0) g_first_fail = s;
  g_fails++;
}

template <typename ZI, typename ZIB, typename PROC>
struct Db {
  const ZI* const* registry; uint16_t size;
  const char* name(uint16_t i) const { return ZIB(registry[i]).name(); }
};

static std::string fmt(const char* f, ...) {
  char buf[1024];
  va_list ap; va_start(ap, f); vsnprintf(buf, sizeof buf, f, ap); va_end(ap);
  return buf;
}

// ---------------------------------------------------------------------------------------------------------- C01 / C02
template <typename ZI, typename ZIB, typename PROC>
static void run_c01(const char* dbname, const ZI* const* registry, uint16_t regsize, const std::vector<OZone>& oracle,
                    int zlo, int zhi, long long step) {
  for (int zi = zlo; zi < zhi && zi < (int) regsize; zi++) {
    const ZI* info = registry[zi];
    std::string zname = ZIB(info).name();
    if (zi >= (int) oracle.size() || oracle[zi].name != zname) { fail(fmt("oracle/registry mismatch at %d: %s", zi, zname.c_str())); continue; }
    const OZone& oz = oracle[zi];
    PROC proc;
    TimeZone tz = TimeZone::forZoneInfo(info, &proc);
    std::vector<long long> probes;
    for (const Seg& s : oz.segs) {
      if (s.t < 0 || s.t >= END50) continue;
      static const long long d[] = {-86400, -3600, -61, -60, -2, -1, 0, 1, 59, 60, 61, 3600, 86400};
      for (long long k : d) { long long t = s.t + k; if (t >= 0 && t < END50) probes.push_back(t); }
      g_distinct++;
    }
    for (long long t = 0; t < END50; t += step) probes.push_back(t);
    probes.push_back(END50 - 1);
    std::sort(probes.begin(), probes.end());
    for (long long t : probes) {
      const Seg& s = seg_at(oz, t);
      TimeOffset uo = tz.getUtcOffset((acetime_t) t);
      TimeOffset dl = tz.getDeltaOffset((acetime_t) t);
      const char* ab = tz.getAbbrev((acetime_t) t);
      g_evals++;
      bool ok = !uo.isError() && !dl.isError() && uo.toMinutes() * 60 == s.off && ((dl.toMinutes() != 0) == (s.dst != 0)) && s.abbr == ab;
      if (!ok) {
        fail(fmt("%s %s t=%lld got(off=%d delta=%d abbr=%s) want(off=%d dst=%d abbr=%s)", dbname, zname.c_str(), t,
                 uo.isError() ? -999999 : uo.toMinutes() * 60, dl.isError() ? -999999 : dl.toMinutes() * 60, ab, s.off, s.dst, s.abbr.c_str()));
        if (g_fails >= MAX_FAILS) return;
      }
      // the broken-down fields of a zoned date-time created from the instant are the UTC fields shifted by that offset
      if ((t % 86400) == 0 || (t & 1)) {
        ZonedDateTime z = ZonedDateTime::forEpochSeconds((acetime_t) t, tz);
        LocalDateTime want = LocalDateTime::forEpochSeconds((acetime_t) (t + s.off));
        if (z.isError() || !(z.localDateTime() == want) || z.timeOffset().toMinutes() * 60 != s.off || z.toEpochSeconds() != (acetime_t) t) {
          fail(fmt("%s %s t=%lld ZonedDateTime fields differ from UTC fields shifted by %d", dbname, zname.c_str(), t, s.off));
          if (g_fails >= MAX_FAILS) return;
        }
      }
    }
  }
}

static void run_c02x(const std::vector<OZone>& oracle, int zlo, int zhi, long long step) {
  ExtendedZoneRegistrar xr(zonedbx::kZoneRegistrySize, zonedbx::kZoneRegistry);
  for (int zi = zlo; zi < zhi && zi < (int) zonedb::kZoneRegistrySize; zi++) {
    const basic::ZoneInfo* bi = zonedb::kZoneRegistry[zi];
    std::string zname = basic::ZoneInfoBroker(bi).name();
    const extended::ZoneInfo* xi = xr.getZoneInfoForName(zname.c_str());
    if (!xi) continue;      // not a common zone
    g_distinct++;
    BasicZoneProcessor bp; ExtendedZoneProcessor xp;
    TimeZone bt = TimeZone::forZoneInfo(bi, &bp), xt = TimeZone::forZoneInfo(xi, &xp);
    std::vector<long long> probes;
    if (zi < (int) oracle.size()) for (const Seg& s : oracle[zi].segs) {
      if (s.t < 0 || s.t >= END50) continue;
      static const long long d[] = {-60, -1, 0, 1, 60};
      for (long long k : d) { long long t = s.t + k; if (t >= 0 && t < END50) probes.push_back(t); }
    }
    for (long long t = 0; t < END50; t += step) probes.push_back(t);
    std::sort(probes.begin(), probes.end());
    for (long long t : probes) {
      g_evals++;
      TimeOffset a = bt.getUtcOffset((acetime_t) t), b = xt.getUtcOffset((acetime_t) t);
      TimeOffset da = bt.getDeltaOffset((acetime_t) t), db = xt.getDeltaOffset((acetime_t) t);
      std::string aa = bt.getAbbrev((acetime_t) t), ab = xt.getAbbrev((acetime_t) t);
      if (a.toMinutes() != b.toMinutes() || da.toMinutes() != db.toMinutes() || aa != ab) {
        fail(fmt("basic-vs-extended %s t=%lld basic(off=%d delta=%d %s) extended(off=%d delta=%d %s)", zname.c_str(), t,
                 a.toMinutes(), da.toMinutes(), aa.c_str(), b.toMinutes(), db.toMinutes(), ab.c_str()));
        if (g_fails >= MAX_FAILS) return;
      }
    }
  }
}

// ---------------------------------------------------------------------------------------------------------- C07
template <typename ZI, typename ZIB, typename PROC>
static void run_c07(const char* dbname, bool extended, const ZI* const* registry, uint16_t regsize, const std::vector<OZone>& oracle,
                    int zlo, int zhi, int window, unsigned seed) {
  for (int zi = zlo; zi < zhi && zi < (int) regsize; zi++) {
    const ZI* info = registry[zi];
    std::string zname = ZIB(info).name();
    const OZone& oz = oracle[zi];
    PROC proc;
    TimeZone tz = TimeZone::forZoneInfo(info, &proc);
    std::vector<long long> walls;     // wall clock values (seconds since 2000-01-01 local), minute aligned
    for (const Seg& s : oz.segs) {
      if (s.t < 86400 || s.t >= END50 - 86400) continue;
      const Seg& before = seg_at(oz, s.t - 1);
      long long lo = s.t + std::min(before.off, s.off) - window * 60LL, hi = s.t + std::max(before.off, s.off) + window * 60LL;
      lo -= ((lo % 60) + 60) % 60;
      for (long long w = lo; w <= hi; w += 60) walls.push_back(w);
      g_distinct++;
    }
    unsigned r = seed * 2654435761u + zi;
    for (int k = 0; k < 400; k++) { r = r * 1103515245u + 12345u; long long w = 86400 + (long long) (r % (unsigned) (END50 / 60 - 2880)) * 60; walls.push_back(w); }
    for (long long w : walls) {
      if (w < 86400 || w >= END50 - 86400) continue;
      // occurrences of the wall time according to the oracle
      std::vector<long long> occ;
      for (size_t i = 0; i < oz.segs.size(); i++) {
        long long u = w - oz.segs[i].off;
        long long end = (i + 1 < oz.segs.size()) ? oz.segs[i + 1].t : (1LL << 60);
        if (u >= oz.segs[i].t && u < end) occ.push_back(u);
      }
      LocalDateTime in = LocalDateTime::forEpochSeconds((acetime_t) w);
      ZonedDateTime z = ZonedDateTime::forComponents(in.year(), in.month(), in.day(), in.hour(), in.minute(), in.second(), tz);
      g_evals++;
      if (z.isError()) { fail(fmt("C07 %s %s wall=%lld: error value", dbname, zname.c_str(), w)); if (g_fails >= MAX_FAILS) return; continue; }
      long long got = z.toEpochSeconds();
      // normalised: rebuilding from its own epoch seconds gives the same fields and offset
      ZonedDateTime n = ZonedDateTime::forEpochSeconds((acetime_t) got, tz);
      const Seg& sg = seg_at(oz, got);
      bool ok = (n.localDateTime() == z.localDateTime()) && n.timeOffset().toMinutes() == z.timeOffset().toMinutes()
                && z.timeOffset().toMinutes() * 60 == sg.off;
      std::string why = ok ? "" : "not normalised";
      if (ok) {
        if (occ.size() == 1) {
          ok = got == occ[0] && z.localDateTime() == in;
          why = "unique wall time not returned unchanged";
        } else if (occ.size() >= 2) {
          ok = std::find(occ.begin(), occ.end(), got) != occ.end();
          why = "overlap: not one of the real occurrences";
          if (ok && extended) { ok = got == *std::max_element(occ.begin(), occ.end()); why = "overlap: extended must return the later occurrence"; }
        } else {
          // gap: the instant obtained with the offset in force before the gap
          long long want = -1;
          for (size_t i = 1; i < oz.segs.size(); i++) {
            long long T = oz.segs[i].t;
            if (w - oz.segs[i - 1].off >= T && w - oz.segs[i].off < T) { want = w - oz.segs[i - 1].off; break; }
          }
          ok = want >= 0 && got == want;
          why = "gap: not the wall time moved forward by the gap length";
        }
      }
      if (!ok) {
        fail(fmt("C07 %s %s wall=%04d-%02d-%02dT%02d:%02d occurrences=%d got=%lld (%s)", dbname, zname.c_str(), in.year(), in.month(), in.day(),
                 in.hour(), in.minute(), (int) occ.size(), got, why.c_str()));
        if (g_fails >= MAX_FAILS) return;
      }
    }
  }
}

// ---------------------------------------------------------------------------------------------------------- C08
struct Answer { int off, delta; std::string abbr; std::string name; long long odt; int odtoff; };

static acetime_t year_instant(int year, unsigned salt) {
  // an instant inside the given year (AceTime epoch), salt picks the day
  LocalDate d = LocalDate::forComponents(year, 1 + salt % 12, 1 + (salt / 12) % 28);
  long long t = (long long) d.toEpochDays() * 86400 + (salt % 86400);
  if (t > 2147483647LL) t = 2147483647LL;
  if (t < -2147483647LL) t = -2147483647LL;
  return (acetime_t) t;
}

static Answer ask(const TimeZone& tz, acetime_t t) {
  Answer a;
  TimeOffset u = tz.getUtcOffset(t); a.off = u.isError() ? -99999 : u.toMinutes();
  TimeOffset d = tz.getDeltaOffset(t); a.delta = d.isError() ? -99999 : d.toMinutes();
  a.abbr = tz.getAbbrev(t);
  g_stub_out.clear(); tz.printTo(Serial); a.name = g_stub_out;
  g_stub_out.clear(); tz.printShortTo(Serial); a.name += "|" + g_stub_out;
  LocalDateTime ldt = LocalDateTime::forEpochSeconds(t);
  OffsetDateTime o = tz.getOffsetDateTime(ldt);
  a.odt = o.isError() ? -1 : (long long) o.toEpochSeconds(); a.odtoff = o.timeOffset().isError() ? -99999 : o.timeOffset().toMinutes();
  return a;
}
static bool same(const Answer& a, const Answer& b) {
  return a.off == b.off && a.delta == b.delta && a.abbr == b.abbr && a.name == b.name && a.odt == b.odt && a.odtoff == b.odtoff;
}
static std::string show(const Answer& a) { return fmt("(off=%d delta=%d abbr=%s name=%s odt=%lld/%d)", a.off, a.delta, a.abbr.c_str(), a.name.c_str(), a.odt, a.odtoff); }

template <typename ZI, typename ZIB, typename PROC, typename MGR1, typename MGR2, typename MGR3, typename MGR4>
static void run_c08(const char* dbname, const ZI* const* registry, uint16_t regsize, int zlo, int zhi, unsigned seed, int nseq) {
  // (a) one zone, one processor: all ordered pairs of cached-year states (incl. out-of-range years), repeated queries
  static const int years[] = {1998, 1999, 2000, 2001, 2019, 2020, 2037, 2038, 2049, 2050, 2051, 1950, 2060};
  const int NY = sizeof years / sizeof years[0];
  for (int zi = zlo; zi < zhi && zi < (int) regsize; zi++) {
    const ZI* info = registry[zi];
    std::string zname = ZIB(info).name();
    for (int i = 0; i < NY; i++) for (int j = 0; j < NY; j++) {
      acetime_t t1 = year_instant(years[i], seed + zi), t2 = year_instant(years[j], seed + 7 * zi + 3);
      PROC shared; TimeZone tz = TimeZone::forZoneInfo(info, &shared);
      (void) ask(tz, t1);
      Answer got = ask(tz, t2);
      Answer again = ask(tz, t2);
      PROC fresh; TimeZone tf = TimeZone::forZoneInfo(info, &fresh);
      Answer want = ask(tf, t2);
      g_evals += 3; g_distinct++;
      if (!same(got, want) || !same(again, want)) {
        fail(fmt("C08 %s %s after year %d, query year %d (t=%d): got %s again %s fresh %s", dbname, zname.c_str(), years[i], years[j], (int) t2,
                 show(got).c_str(), show(again).c_str(), show(want).c_str()));
        if (g_fails >= MAX_FAILS) return;
      }
    }
  }
  // (b) several zones bound to one processor: every ordered pair of (method on zone A) then (method on zone B)
  unsigned r = seed * 2654435761u + 17;
  for (int k = 0; k < nseq; k++) {
    r = r * 1103515245u + 12345u; int za = zlo + (r >> 8) % std::max(1, std::min((int) regsize, zhi) - zlo);
    r = r * 1103515245u + 12345u; int zb = (r >> 8) % regsize;
    r = r * 1103515245u + 12345u; acetime_t t = (acetime_t) ((r >> 4) % (unsigned) END50);
    PROC shared;
    TimeZone ta = TimeZone::forZoneInfo(registry[za], &shared), tb = TimeZone::forZoneInfo(registry[zb], &shared);
    PROC f1; TimeZone fb = TimeZone::forZoneInfo(registry[zb], &f1);
    Answer want = ask(fb, t);
    for (int ma = 0; ma < 5; ma++) for (int mb = 0; mb < 5; mb++) {
      // touch zone A with method ma, then ask zone B with method mb only
      switch (ma) { case 0: ta.getUtcOffset(t); break; case 1: ta.getDeltaOffset(t); break; case 2: ta.getAbbrev(t); break;
                    case 3: ta.getOffsetDateTime(LocalDateTime::forEpochSeconds(t)); break; default: g_stub_out.clear(); ta.printTo(Serial); }
      Answer g = want;
      switch (mb) {
        case 0: { TimeOffset u = tb.getUtcOffset(t); g.off = u.isError() ? -99999 : u.toMinutes(); break; }
        case 1: { TimeOffset d = tb.getDeltaOffset(t); g.delta = d.isError() ? -99999 : d.toMinutes(); break; }
        case 2: g.abbr = tb.getAbbrev(t); break;
        case 3: { OffsetDateTime o = tb.getOffsetDateTime(LocalDateTime::forEpochSeconds(t)); g.odt = o.isError() ? -1 : (long long) o.toEpochSeconds();
                  g.odtoff = o.timeOffset().isError() ? -99999 : o.timeOffset().toMinutes(); break; }
        default: { g_stub_out.clear(); tb.printTo(Serial); std::string n = g_stub_out; g_stub_out.clear(); tb.printShortTo(Serial); g.name = n + "|" + g_stub_out; }
      }
      g_evals++;
      if (!same(g, want)) {
        fail(fmt("C08 %s shared processor: %s.method%d then %s.method%d at t=%d: got %s fresh %s", dbname, ZIB(registry[za]).name(), ma,
                 ZIB(registry[zb]).name(), mb, (int) t, show(g).c_str(), show(want).c_str()));
        if (g_fails >= MAX_FAILS) return;
      }
    }
    g_distinct++;
  }
  // (c) managers with cache size 1..4 holding more zones than slots: random interleavings
  for (int size = 1; size <= 4; size++) {
    MGR1 m1(regsize, registry); MGR2 m2(regsize, registry); MGR3 m3(regsize, registry); MGR4 m4(regsize, registry);
    ZoneManager* mgr = size == 1 ? (ZoneManager*) &m1 : size == 2 ? (ZoneManager*) &m2 : size == 3 ? (ZoneManager*) &m3 : (ZoneManager*) &m4;
    const int NZ = 6;
    int zs[NZ]; TimeZone tzs[NZ];
    for (int i = 0; i < NZ; i++) { r = r * 1103515245u + 12345u; zs[i] = (i == 0) ? std::min(zlo, (int) regsize - 1) : (r >> 8) % regsize; tzs[i] = mgr->createForZoneIndex(zs[i]); }
    for (int k = 0; k < nseq; k++) {
      r = r * 1103515245u + 12345u; int i = (r >> 8) % NZ;
      r = r * 1103515245u + 12345u; int yr = years[(r >> 8) % NY];
      acetime_t t = year_instant(yr, r >> 3);
      Answer got = ask(tzs[i], t);
      PROC fresh; TimeZone tf = TimeZone::forZoneInfo(registry[zs[i]], &fresh);
      Answer want = ask(tf, t);
      g_evals++;
      if (!same(got, want)) {
        fail(fmt("C08 %s manager cache size %d: %s at t=%d (step %d): got %s fresh %s", dbname, size, ZIB(registry[zs[i]]).name(), (int) t, k,
                 show(got).c_str(), show(want).c_str()));
        if (g_fails >= MAX_FAILS) return;
      }
    }
    g_distinct++;
  }
}

// ---------------------------------------------------------------------------------------------------------- C09
template <typename ZI, typename ZIB, typename PROC>
static void run_c09_zones(const char* dbname, bool extended, const ZI* const* registry, uint16_t regsize, int zlo, int zhi, unsigned seed) {
  static const acetime_t special[] = {(acetime_t) 0x80000000, -2147400000, -1000000000, -1, 0, 1, 1577923199, 1577923200, 1609459200, 2147483647, 2147400000};
  for (int zi = zlo; zi < zhi && zi < (int) regsize; zi++) {
    const ZI* info = registry[zi];
    std::string zname = ZIB(info).name();
    // out-of-range arguments give error values, and keep doing so when repeated; sequences up to length 4
    PROC proc; TimeZone tz = TimeZone::forZoneInfo(info, &proc);
    unsigned r = seed * 40503u + zi;
    for (int k = 0; k < 64; k++) {
      acetime_t seq[4];
      for (int i = 0; i < 4; i++) { r = r * 1103515245u + 12345u; seq[i] = special[(r >> 8) % (sizeof special / sizeof special[0])]; }
      for (int i = 0; i < 4; i++) {
        acetime_t t = seq[i];
        TimeOffset u = tz.getUtcOffset(t); TimeOffset d = tz.getDeltaOffset(t); const char* ab = tz.getAbbrev(t);
        ZonedDateTime z = ZonedDateTime::forEpochSeconds(t, tz);
        LocalDateTime ldt = LocalDateTime::forEpochSeconds(t);
        OffsetDateTime o = tz.getOffsetDateTime(ldt);
        (void) ab; (void) d; (void) o;
        g_evals++;
        bool in_range = t >= 0 && t < (acetime_t) END50;
        if (in_range && (u.isError() || z.isError())) { fail(fmt("C09 %s %s: error for in-range t=%d", dbname, zname.c_str(), (int) t)); if (g_fails >= MAX_FAILS) return; }
        bool far = (t == (acetime_t) 0x80000000) || t > 1609459200 + 86400 * 366 || t < -86400 * 400;
        if (far && (!u.isError() || !z.isError())) { fail(fmt("C09 %s %s: non-error result for out-of-range t=%d (off=%d)", dbname, zname.c_str(), (int) t, u.toMinutes())); if (g_fails >= MAX_FAILS) return; }
      }
    }
    g_distinct++;
  }
}

static void run_c09_buffers(int zlo, int zhi) {
  // extended: transition pool high-water mark per zone and year stays below the recorded size and below capacity
  for (int zi = zlo; zi < zhi && zi < (int) zonedbx::kZoneRegistrySize; zi++) {
    const extended::ZoneInfo* info = zonedbx::kZoneRegistry[zi];
    ExtendedZoneProcessor proc(info);
    uint8_t recorded = info->transitionBufSize;
    proc.resetTransitionHighWater();
    for (int y = 1999; y <= 2050; y++) {
      acetime_t t = year_instant(y, 37);
      proc.getUtcOffset(t);
      g_evals++;
      uint8_t hw = proc.getTransitionHighWater();
      if (hw >= recorded || hw >= 8) {
        fail(fmt("C09 zonedbx %s year %d: transition pool high water %d, recorded buffer size %d, capacity 8", extended::ZoneInfoBroker(info).name(), y, hw, recorded));
        if (g_fails >= MAX_FAILS) return;
      }
    }
    g_distinct++;
  }
#if ACE_TIME_VERIF_HOOKS
  for (int zi = zlo; zi < zhi && zi < (int) zonedb::kZoneRegistrySize; zi++) {
    const basic::ZoneInfo* info = zonedb::kZoneRegistry[zi];
    BasicZoneProcessor proc(info);
    for (int y = 1999; y <= 2050; y++) {
      unsigned long before = ace_time_verif_basic_dropped;
      proc.getUtcOffset(year_instant(y, 37));
      g_evals++;
      if (ace_time_verif_basic_dropped != before) {
        fail(fmt("C09 zonedb %s year %d: BasicZoneProcessor::addTransition dropped a transition (needs more than 5 cache slots)", basic::ZoneInfoBroker(info).name(), y));
        if (g_fails >= MAX_FAILS) return;
      }
    }
  }
#endif
}

static void run_c09_values(unsigned seed) {
  // value classes over strided int32 epoch seconds + boundaries, component tuples at and beyond every limit
  unsigned r = seed;
  for (long long s = -2147483648LL; s <= 2147483647LL; s += 65521) {
    acetime_t t = (acetime_t) s;
    LocalDateTime l = LocalDateTime::forEpochSeconds(t);
    LocalDate d = LocalDate::forEpochSeconds(t);
    OffsetDateTime o = OffsetDateTime::forEpochSeconds(t, TimeOffset::forMinutes((int16_t) ((s / 65521) % 1921 - 960)));
    volatile acetime_t back = l.toEpochSeconds(); volatile acetime_t b2 = o.toEpochSeconds(); volatile uint8_t w = d.isError() ? 0 : d.dayOfWeek();
    (void) back; (void) b2; (void) w;
    g_evals++;
  }
  static const int16_t ys[] = {-32768, -1, 0, 1872, 1873, 1999, 2000, 2127, 2128, 9999, 32767};
  static const uint8_t ms[] = {0, 1, 2, 12, 13, 255}, ds[] = {0, 1, 28, 29, 30, 31, 32, 255}, hs[] = {0, 23, 24, 25, 255}, mins[] = {0, 59, 60, 255};
  for (int16_t y : ys) for (uint8_t m : ms) for (uint8_t d : ds) for (uint8_t h : hs) for (uint8_t mi : mins) {
    LocalDateTime l = LocalDateTime::forComponents(y, m, d, h, mi, mi);
    volatile acetime_t e = l.toEpochSeconds(); (void) e;
    volatile acetime_t u = l.toUnixSeconds(); (void) u;
    OffsetDateTime o = OffsetDateTime::forComponents(y, m, d, h, mi, 0, TimeOffset::forMinutes(-480));
    volatile acetime_t e2 = o.toEpochSeconds(); (void) e2;
    LocalDate ld = LocalDate::forComponents(y, m, d);
    volatile acetime_t e3 = ld.toEpochSeconds(); (void) e3;
    if (!ld.isError()) { volatile uint8_t w = ld.dayOfWeek(); (void) w; }
    bool valid = y >= 1873 && y <= 2127 && m >= 1 && m <= 12 && d >= 1 && d <= 31 && (h < 24 || (h == 24 && mi == 0)) && mi < 60;
    if (valid == l.isError()) { fail(fmt("C09 LocalDateTime(%d,%d,%d,%d,%d) isError=%d", y, m, d, h, mi, (int) l.isError())); if (g_fails >= MAX_FAILS) return; }
    g_evals++; g_distinct++;
  }
  (void) r;
}

// ---------------------------------------------------------------------------------------------------------- C04
// dump what the C++ extended processor selects for wall times around every transition (first-stage selection by
// findTransitionForDateTime, which is what ZoneSpecifier._find_transition_for_datetime mirrors) and at instants
static void run_c04dump(const std::vector<OZone>& oracle, int zlo, int zhi) {
  for (int zi = zlo; zi < zhi && zi < (int) zonedbx::kZoneRegistrySize; zi++) {
    const extended::ZoneInfo* info = zonedbx::kZoneRegistry[zi];
    const OZone& oz = oracle[zi];
    ExtendedZoneProcessor proc(info);
    printf("Z %s\n", extended::ZoneInfoBroker(info).name());
    for (const Seg& s : oz.segs) {
      if (s.t < 86400 * 2 || s.t >= END50 - 86400 * 2) continue;
      const Seg& before = seg_at(oz, s.t - 1);
      long long base = s.t + std::min(before.off, s.off);
      base -= ((base % 60) + 60) % 60;
      for (int k = -8; k <= 8; k++) {
        long long w = base + k * 900LL;
        LocalDateTime ldt = LocalDateTime::forEpochSeconds((acetime_t) w);
        bool ok = proc.init(ldt.localDate());
        const extended::Transition* tr = ok ? proc.mTransitionStorage.findTransitionForDateTime(ldt) : nullptr;
        printf("W %lld %d\n", w, tr ? tr->offsetMinutes + tr->deltaMinutes : 99999);
        g_evals++;
      }
      g_distinct++;
    }
  }
}

int main(int argc, char** argv) {
  if (argc < 2) return 3;
  std::string mode = argv[1];
  if (mode == "c04dump" && argc >= 5) {
    std::vector<OZone> oracle = load_oracle(argv[2]);
    run_c04dump(oracle, atoi(argv[3]), atoi(argv[4]));
    printf("SUMMARY {\"evaluations\": %llu, \"distinct\": %llu, \"fails\": %d}\n", g_evals, g_distinct, g_fails);
    return 0;
  }
  if (mode == "c01" && argc >= 7) {
    std::string db = argv[2];
    std::vector<OZone> oracle = load_oracle(argv[3]);
    int zlo = atoi(argv[4]), zhi = atoi(argv[5]); long long step = atoll(argv[6]);
    if (db == "zonedbx") run_c01<extended::ZoneInfo, extended::ZoneInfoBroker, ExtendedZoneProcessor>("zonedbx", zonedbx::kZoneRegistry, zonedbx::kZoneRegistrySize, oracle, zlo, zhi, step);
    else run_c01<basic::ZoneInfo, basic::ZoneInfoBroker, BasicZoneProcessor>("zonedb", zonedb::kZoneRegistry, zonedb::kZoneRegistrySize, oracle, zlo, zhi, step);
  } else if (mode == "c02x" && argc >= 6) {
    std::vector<OZone> oracle = load_oracle(argv[2]);
    run_c02x(oracle, atoi(argv[3]), atoi(argv[4]), atoll(argv[5]));
  } else if (mode == "c07" && argc >= 7) {
    std::string db = argv[2];
    std::vector<OZone> oracle = load_oracle(argv[3]);
    int zlo = atoi(argv[4]), zhi = atoi(argv[5]), window = atoi(argv[6]); unsigned seed = argc > 7 ? atoi(argv[7]) : 1;
    if (db == "zonedbx") run_c07<extended::ZoneInfo, extended::ZoneInfoBroker, ExtendedZoneProcessor>("zonedbx", true, zonedbx::kZoneRegistry, zonedbx::kZoneRegistrySize, oracle, zlo, zhi, window, seed);
    else run_c07<basic::ZoneInfo, basic::ZoneInfoBroker, BasicZoneProcessor>("zonedb", false, zonedb::kZoneRegistry, zonedb::kZoneRegistrySize, oracle, zlo, zhi, window, seed);
  } else if (mode == "c08" && argc >= 7) {
    std::string db = argv[2]; int zlo = atoi(argv[3]), zhi = atoi(argv[4]); unsigned seed = atoi(argv[5]); int nseq = atoi(argv[6]);
    if (db == "zonedbx") run_c08<extended::ZoneInfo, extended::ZoneInfoBroker, ExtendedZoneProcessor, ExtendedZoneManager<1>, ExtendedZoneManager<2>, ExtendedZoneManager<3>, ExtendedZoneManager<4>>("zonedbx", zonedbx::kZoneRegistry, zonedbx::kZoneRegistrySize, zlo, zhi, seed, nseq);
    else run_c08<basic::ZoneInfo, basic::ZoneInfoBroker, BasicZoneProcessor, BasicZoneManager<1>, BasicZoneManager<2>, BasicZoneManager<3>, BasicZoneManager<4>>("zonedb", zonedb::kZoneRegistry, zonedb::kZoneRegistrySize, zlo, zhi, seed, nseq);
  } else if (mode == "c09" && argc >= 6) {
    std::string db = argv[2]; int zlo = atoi(argv[3]), zhi = atoi(argv[4]); unsigned seed = atoi(argv[5]);
    if (db == "zonedbx") run_c09_zones<extended::ZoneInfo, extended::ZoneInfoBroker, ExtendedZoneProcessor>("zonedbx", true, zonedbx::kZoneRegistry, zonedbx::kZoneRegistrySize, zlo, zhi, seed);
    else if (db == "zonedb") run_c09_zones<basic::ZoneInfo, basic::ZoneInfoBroker, BasicZoneProcessor>("zonedb", false, zonedb::kZoneRegistry, zonedb::kZoneRegistrySize, zlo, zhi, seed);
    else if (db == "buffers") run_c09_buffers(zlo, zhi);
    else run_c09_values(seed);
  } else {
    fprintf(stderr, "bad arguments\n");
    return 3;
  }
  printf("SUMMARY {\"evaluations\": %llu, \"distinct\": %llu, \"fails\": %d}\n", g_evals, g_distinct, g_fails);
  return g_fails ? 1 : 0;
}
