// Trusted stub of the external AceCommon library (not in the repository):
// definitions reproduced from upstream AceCommon 1.1 (arithmetic/printPad.h
// and pstrings).  These are ASSUMED contracts, listed in every evidence file.
#ifndef VERIF_STUB_ACECOMMON_H
#define VERIF_STUB_ACECOMMON_H
#include <Arduino.h>
namespace ace_common {
template <typename T>
void incrementMod(T& d, T m) {
  d++;
  if (d >= m) d = 0;
}
template <typename T>
void incrementModOffset(T& d, T m, T offset) {
  d -= offset;
  d++;
  if (d >= m) d = 0;
  d += offset;
}
void printPad2To(Print& printer, uint16_t val, char pad = ' ');
void printPad3To(Print& printer, uint16_t val, char pad = ' ');
int strcmp_PP(const char* a, const char* b);
inline const char* strchr_P(const char* s, int c) { return strchr(s, c); }
inline const char* strrchr_P(const char* s, int c) { return strrchr(s, c); }
class TimingStats {
  public:
    void update(uint16_t duration) { mCount++; mLast = duration; }
    uint16_t mCount = 0;
    uint16_t mLast = 0;
};
}
#endif
