// Trusted stub (not part of seandst/AceTime): minimal Arduino core surface
// needed to compile /repo/src on the host for verification.
#ifndef VERIF_STUB_ARDUINO_H
#define VERIF_STUB_ARDUINO_H
#include <stdint.h>
#include <stddef.h>
#include <string.h>
#include <stdlib.h>
#include <stdio.h>
#include "pgmspace.h"
#include "Print.h"
extern "C" unsigned long millis();
extern "C" void delay(unsigned long ms);
extern "C" void yield();
class StubSerial : public Print {
  public:
    size_t write(uint8_t c) override;
};
extern StubSerial Serial;
#define SERIAL_PORT_MONITOR Serial
#endif
