// Trusted stub: Arduino Print interface. The bodies (stubs.cpp) are the
// assumed contract of the external class: print(char) appends the char,
// print(integer) appends its decimal numeral, print(const char*) appends the
// bytes up to NUL.
#ifndef VERIF_STUB_PRINT_H
#define VERIF_STUB_PRINT_H
#include <stdint.h>
#include <stddef.h>
class __FlashStringHelper;
#define F(s) (reinterpret_cast<const __FlashStringHelper*>(s))
#define FPSTR(p) (reinterpret_cast<const __FlashStringHelper*>(p))
class Print {
  public:
    virtual ~Print() {}
    virtual size_t write(uint8_t c) = 0;
    size_t print(char c);
    size_t print(const char* s);
    size_t print(const __FlashStringHelper* s);
    size_t print(unsigned char v);
    size_t print(int v);
    size_t print(unsigned int v);
    size_t print(long v);
    size_t print(unsigned long v);
    size_t println();
    size_t println(const char* s);
    size_t println(int v);
};
#endif
