#ifndef VERIF_AVR_STDIO_H
#define VERIF_AVR_STDIO_H
#include <stddef.h>
#include <stdarg.h>
extern "C" { int printf(const char*, ...); int vprintf(const char*, va_list); int snprintf(char*, size_t, const char*, ...); int vsnprintf(char*, size_t, const char*, va_list); int putchar(int); int puts(const char*); }
#endif
