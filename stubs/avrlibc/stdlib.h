#ifndef VERIF_AVR_STDLIB_H
#define VERIF_AVR_STDLIB_H
#include <stddef.h>
extern "C" { int abs(int); long labs(long); int atoi(const char*); void* malloc(size_t); void free(void*); void exit(int); }
#endif
