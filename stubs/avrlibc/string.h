// minimal libc declarations for the AVR (16-bit int) verification pass; external functions keep their assumed contracts
#ifndef VERIF_AVR_STRING_H
#define VERIF_AVR_STRING_H
#include <stddef.h>
extern "C" {
size_t strlen(const char*);
int strcmp(const char*, const char*);
int strncmp(const char*, const char*, size_t);
char* strchr(const char*, int);
char* strrchr(const char*, int);
char* strcpy(char*, const char*);
char* strncpy(char*, const char*, size_t);
void* memcpy(void*, const void*, size_t);
void* memset(void*, int, size_t);
void* memmove(void*, const void*, size_t);
int memcmp(const void*, const void*, size_t);
}
#endif
