#ifndef VERIF_AVR_TIME_H
#define VERIF_AVR_TIME_H
typedef long time_t;
extern "C" { time_t time(time_t*); }
#endif
