// Bodies of the trusted stubs (native harnesses only).
#include <Arduino.h>
#include <AceCommon.h>
#include <string>
std::string g_stub_out;
unsigned long g_stub_millis = 0;
extern "C" unsigned long millis() { return g_stub_millis; }
extern "C" void delay(unsigned long) {}
extern "C" void yield() {}
size_t StubSerial::write(uint8_t c) { g_stub_out.push_back((char)c); return 1; }
StubSerial Serial;
size_t Print::print(char c) { return write((uint8_t)c); }
size_t Print::print(const char* s) { size_t n = 0; while (*s) { n += write((uint8_t)*s++); } return n; }
size_t Print::print(const __FlashStringHelper* s) { return print(reinterpret_cast<const char*>(s)); }
size_t Print::print(unsigned char v) { return print((unsigned long)v); }
size_t Print::print(int v) { return print((long)v); }
size_t Print::print(unsigned int v) { return print((unsigned long)v); }
size_t Print::print(long v) { char b[32]; snprintf(b, sizeof b, "%ld", v); return print(b); }
size_t Print::print(unsigned long v) { char b[32]; snprintf(b, sizeof b, "%lu", v); return print(b); }
size_t Print::println() { return print("\r\n"); }
size_t Print::println(const char* s) { size_t n = print(s); return n + println(); }
size_t Print::println(int v) { size_t n = print(v); return n + println(); }
namespace ace_common {
void printPad2To(Print& printer, uint16_t val, char pad) {
  if (val < 10) printer.print(pad);
  printer.print(val);
}
void printPad3To(Print& printer, uint16_t val, char pad) {
  if (val < 100) printer.print(pad);
  if (val < 10) printer.print(pad);
  printer.print(val);
}
int strcmp_PP(const char* a, const char* b) { return strcmp(a, b); }
}
#if ACE_TIME_VERIF_HOOKS
// counter incremented by the guarded verification hook in BasicZoneProcessor::addTransition
extern "C" { unsigned long ace_time_verif_basic_dropped = 0; }
#endif
