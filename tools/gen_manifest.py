#!/usr/bin/env python3
"""Regenerate MANIFEST.json from the table below (single source of truth for what is claimed)."""
import json, os
HERE = os.path.dirname(os.path.dirname(os.path.abspath(__file__)))
TECH = 'contract-based deductive verification: VCs generated from the LLVM IR of the real functions (clang -O0, re-extracted every run) against sidecar contracts, discharged by z3/cvc5'
NOTE = 'trusted: clang -O0 lowering, own IR executor (vc/), SMT solvers, stub headers for Arduino/AceCommon; two\'s-complement wrap-around for nsw arithmetic (overflow freedom is C09); x86-64 data model'
AVR = '; verified a second time on the IR compiled with --target=avr (16-bit int and pointers), obligations suffixed @avr'
CLAIMS = {
 'C06': ('proof', 'every obligation generated from the IR of the real LocalDate/LocalTime/LocalDateTime/local_date_mutation functions against contracts stating equality with a proleptic-Gregorian spec function is discharged for all inputs; round trips and inverses are lemmas over those contracts', NOTE + AVR, TECH, 'cxxvc'),
 'C17': ('proof', 'TimePeriod/TimeOffset/mutation helpers verified from IR for every argument and field value; ranges, inverses and the 15-minute cycle are postconditions or lemmas over the contracts; one listed known finding (incrementYear outside [0,99])', NOTE + AVR + '; AceCommon incrementMod* executed from the stub reproducing upstream', TECH, 'cxxvc'),
 'C13': ('proof', 'SystemClock getNow (loop invariant + variant), syncNow, setNow, ctor verified from IR with ghost true time; the statement is an induction whose base and step are lemmas over the contracts; obligations relating machine values to unbounded time are discharged in an integer abstraction (sound for unsat)', NOTE + AVR + ' (except SystemClock::getNow, whose 32-bit obligations are not decided reliably and are left out of that pass)' + '; clockMillis() = true time mod 2^32, constant during a call; reference/backup clocks are environment objects', TECH + ' + integer abstraction (vc/intblast.py)', 'cxxvc'),
 'C10': ('proof', 'isSorted / linear / binary search with loop invariants and variants (termination), index guards, registrar and manager wrappers of both scopes verified from IR with quantified ghost registry views; every registry access carries index < size; a bounded ASan run is only the refuter that supplies concrete failing inputs', NOTE + '; strcmp modelled by an order embedding, result within int8 (7-bit ASCII names)', TECH, 'cxxvc'),
 'C16': ('proof', 'toTimeZoneData, createForTimeZoneData (numeric kType switch as compiled), operator== of TimeZone/TimeZoneData, factories, getZoneId and the id lookup chain verified from IR; save/restore round trip is a lemma over these contracts', NOTE + '; registry ids pairwise distinct (C11); manager verified for the <2> cache instantiations', TECH, 'cxxvc'),
}
NA = {}
DEFAULT_NA = 'check under construction in this session (see DESIGN.md); not yet claimed'
props = [json.loads(l) for l in open(os.path.join(HERE, 'properties.jsonl'))]
extra = {}
if os.path.exists(os.path.join(HERE, 'tools', 'manifest_extra.json')):
    extra = json.load(open(os.path.join(HERE, 'tools', 'manifest_extra.json')))
CLAIMS.update({k: tuple(v) for k, v in extra.get('claims', {}).items()})
NA.update(extra.get('na', {}))
hooks = extra.get('hook_commits', [])
man = {
 'version': 1,
 'setup_cmd': 'python3-vt -c "import z3; print(z3.get_version_string())" && clang++ --version | head -1 && test -x /usr/sbin/zic && test -x /usr/bin/cvc5',
 'hooks': {'guard': 'ACETIME_VERIF', 'enable': 'checks compile /repo/src with -DACE_TIME_VERIF_HOOKS=1 when ACETIME_VERIF=1 (exported by bin/check)',
           'baseline_off_cmd': 'cd /repo && /venv/bin/python -m pytest -q -p no:cacheprovider --timeout=900', 'source_commits': hooks, 'add_only': True},
 'engines': [
   {'name': 'cxxvc', 'path': 'vc/', 'serves_properties': sorted(k for k, v in CLAIMS.items() if v[4] in ('cxxvc', 'cxxvc+rtc', 'cxxvc+pyvc')), 'kind_free_text': 'contracts (contracts/*.py) on the real C++ functions; clang -O0 LLVM IR re-extracted each run; own symbolic executor generates VCs; z3/cvc5 discharge; native ASan/UBSan replay of counterexamples'},
   {'name': 'pyvc', 'path': 'vc/pyvc.py', 'serves_properties': sorted(k for k, v in CLAIMS.items() if 'pyvc' in v[4]), 'kind_free_text': 'contracts on the real Python functions of tools/: ast re-read each run, symbolic execution to z3 Int obligations'},
   {'name': 'rtc', 'path': 'rtc/', 'serves_properties': sorted(k for k, v in CLAIMS.items() if 'rtc' in v[4]), 'kind_free_text': 'bounded stand-in: the real code natively under ASan/UBSan against the zic/zdump oracle; never counted as proved'},
 ],
 'checks': [], 'not_applicable': [],
 'notes': 'exit codes of every check: 0 held / 1 VIOLATION (replayed, or no-failing-input-found) / 2 undecided / 3 checker failure. See DESIGN.md.',
}
for p in props:
    i = p['id']
    if i in CLAIMS:
        cat, text, note, tech, eng = CLAIMS[i]
        man['checks'].append({'property_id': i, 'quick_cmd': 'bin/check %s --tier quick' % i, 'thorough_cmd': 'bin/check %s --tier thorough' % i,
                              'evidence_file': 'evidence/%s.json' % i, 'replay_cmd_template': 'cat {path}', 'engine': eng,
                              'level_claimed': {'category': cat, 'text': text, 'design_ref': 'DESIGN.md section 5, ' + i},
                              'level_note': note, 'technique': tech})
    else:
        man['not_applicable'].append({'property_id': i, 'reason': NA.get(i, DEFAULT_NA)})
json.dump(man, open(os.path.join(HERE, 'MANIFEST.json'), 'w'), indent=1)
print('claimed:', sorted(CLAIMS), 'n/a:', [x['property_id'] for x in man['not_applicable']])
