#!/bin/sh
# usage: tools/keep_seeded.sh <PROP> <seed-id>   (agent output in /tmp/wt_<PROP>_out, worktree /tmp/wt_<PROP>)
PROP="$1"; ID="$2"; WT=/tmp/wt_$PROP; OUT=/tmp/wt_${PROP}_out
[ -d /tmp/pristine_tree ] || git -C /repo worktree add -q --detach /tmp/pristine_tree HEAD
git -C /tmp/pristine_tree checkout -q -- . 
git -C $WT diff > /tmp/cur_$PROP.diff
if ! [ -s /tmp/cur_$PROP.diff ]; then git -C $WT apply $OUT/patch.diff; git -C $WT diff > /tmp/cur_$PROP.diff; fi
( cd $OUT && timeout 900 bash ./run.sh $WT > /tmp/seed_mod_$PROP.log 2>&1 ); rc_mod=$?
( cd $OUT && timeout 900 bash ./run.sh /tmp/pristine_tree > /tmp/seed_pri_$PROP.log 2>&1 ); rc_pri=$?
( cd $WT && /venv/bin/python -m pytest -q -p no:cacheprovider --timeout=900 2>&1 | tail -1 > /tmp/seed_test_$PROP.log )
echo "modified rc=$rc_mod pristine rc=$rc_pri tests: $(cat /tmp/seed_test_$PROP.log)"
if [ $rc_mod -ne 0 ] && [ $rc_pri -eq 0 ] && grep -q "34 passed" /tmp/seed_test_$PROP.log; then
  D=/verif/seeded/$ID; mkdir -p $D
  cp /tmp/cur_$PROP.diff $D/patch.diff
  for f in demo.cpp demo.py run.sh notes.md; do [ -f $OUT/$f ] && cp $OUT/$f $D/; done
  [ -d $OUT/stubs ] && cp -r $OUT/stubs $D/stubs
  echo "kept in $D"
else
  echo "NOT CONFIRMED"
fi
