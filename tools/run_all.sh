#!/bin/sh
# run every claimed check (quick tier) sequentially; print one line per property
cd /verif
for p in $(python3 -c "import json; print(' '.join(c['property_id'] for c in json.load(open('MANIFEST.json'))['checks']))"); do
  s=$(date +%s)
  bin/check $p --tier ${1:-quick} > /tmp/all_$p.log 2>&1; rc=$?
  e=$(date +%s)
  echo "$p rc=$rc $((e-s))s $(grep -c VIOLATION /tmp/all_$p.log) violations, $(grep -c KNOWN-FINDING /tmp/all_$p.log) known | $(tail -1 /tmp/all_$p.log | cut -c1-160)"
done
