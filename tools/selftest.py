#!/usr/bin/env python3
"""Re-run every seeded change against the check(s) recorded as catching it, on a scratch worktree (never in /repo):
   tools/selftest.py [ids...]      -> seeded/RESULTS.md
For each seeded/<id>/ with meta.json: git worktree of /repo HEAD under /var/tmp, `git apply patch.diff` (a patch that no longer
applies is reported as such), then `VERIF_REPO=<worktree> bin/check <PROP> --tier quick` for every property in caught_by;
expected: exit 1 with a VIOLATION line.  (tools/selftest_all.sh runs groups of ids side by side and merges the tables.)"""
import json, os, subprocess, sys, time
HERE = os.path.dirname(os.path.dirname(os.path.abspath(__file__)))
REPO = '/repo'


def sh(cmd, **kw):
    return subprocess.run(cmd, shell=True, capture_output=True, text=True, **kw)


def run_one(sid):
    d = os.path.join(HERE, 'seeded', sid)
    meta = json.load(open(os.path.join(d, 'meta.json')))
    wt = '/var/tmp/selftest_%s_%d' % (sid, os.getpid())
    sh('git -C %s worktree add -q --detach %s HEAD' % (REPO, wt))
    rows = []
    try:
        a = sh('git -C %s apply %s' % (wt, os.path.join(d, 'patch.diff')))
        if a.returncode:
            return [(sid, meta['property'], '-', 'patch does not apply to the current /repo (%s)' % (a.stderr.strip().split('\n')[0][:80]))]
        for prop in meta.get('caught_by', []):
            t = time.time()
            env = dict(os.environ, VERIF_REPO=wt)
            p = subprocess.run(['bin/check', prop, '--tier', 'quick'], cwd=HERE, capture_output=True, text=True, env=env)
            viol = [l for l in p.stdout.split('\n') if l.startswith('VIOLATION')]
            if meta.get('obsolete_after_fix'):
                verdict = '' if p.returncode == 0 else '  <-- UNEXPECTED'
                note = ' (expected exit 0: since fix %s in /repo this change no longer alters any output, see meta.json)' % meta['obsolete_after_fix']
            else:
                verdict = '' if p.returncode == 1 and viol else '  <-- NOT CAUGHT'
                note = ''
            rows.append((sid, meta['property'], prop, 'exit %d, %d VIOLATION line(s), %.0fs%s%s' % (p.returncode, len(viol), time.time() - t, note, verdict)))
    finally:
        sh('git -C %s worktree remove --force %s' % (REPO, wt))
    return rows


def main():
    ids = sys.argv[1:] or sorted(x for x in os.listdir(os.path.join(HERE, 'seeded')) if os.path.exists(os.path.join(HERE, 'seeded', x, 'meta.json')))
    out = ['# Seeded changes re-run against the committed checks', '',
           'Produced by `tools/selftest.py` on /repo %s; each change applied in a scratch worktree (`VERIF_REPO`), never in /repo.' % sh('git -C /repo rev-parse --short HEAD').stdout.strip(), '',
           '| change | property | check | result |', '|---|---|---|---|']
    for sid in ids:
        for row in run_one(sid):
            out.append('| %s | %s | %s | %s |' % row)
            print(out[-1], flush=True)
    # SELFTEST_OUT=<file>: write this (partial) table elsewhere, so that several groups of ids can run side by side
    # (tools/selftest_all.sh merges them into seeded/RESULTS.md)
    open(os.environ.get('SELFTEST_OUT') or os.path.join(HERE, 'seeded', 'RESULTS.md'), 'w').write('\n'.join(out) + '\n')
    if not os.environ.get('SELFTEST_OUT'):
        sh('git -C %s checkout -q evidence/' % HERE)      # the runs above rewrote evidence files from scratch trees


if __name__ == '__main__':
    main()
