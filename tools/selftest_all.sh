#!/bin/sh
# run tools/selftest.py over all seeded changes in N groups side by side (default 4), merge into seeded/RESULTS.md
cd /verif || exit 9
N=${1:-4}
ids=$(ls seeded/*/meta.json | sed 's,seeded/,,;s,/meta.json,,' | sort)
D=/var/tmp/selftest_parts.$$; mkdir -p $D
i=0
for id in $ids; do g=$((i % N)); echo $id >> $D/group$g; i=$((i+1)); done
for g in $(seq 0 $((N-1))); do
  [ -f $D/group$g ] && SELFTEST_OUT=$D/out$g.md VERIF_SCRATCH=/var/tmp/acetime-verif.selftest$g python3 tools/selftest.py $(cat $D/group$g) > $D/log$g 2>&1 &
done
wait
{ head -6 $D/out0.md; for g in $(seq 0 $((N-1))); do tail -n +7 $D/out$g.md; done | sort; } > seeded/RESULTS.md
git checkout -q evidence/
rm -rf $D
grep -c "NOT CAUGHT\|UNEXPECTED" seeded/RESULTS.md
