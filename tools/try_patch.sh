#!/bin/sh
# usage: tools/try_patch.sh <patch.diff> <PROP> [tier]   -- apply to /repo, run the check, always revert
P="$1"; PROP="$2"; TIER="${3:-quick}"
cd /verif || exit 9
git -C /repo apply "$P" || { echo "patch does not apply"; exit 9; }
bin/check "$PROP" --tier "$TIER" > /tmp/try_$PROP.log 2>&1; rc=$?
git -C /repo checkout -- . 
grep -E "VIOLATION|KNOWN-FINDING|UNDECIDED|OUT OF REACH|held" /tmp/try_$PROP.log | cut -c1-300
echo "exit=$rc"
