#!/usr/bin/env python3
"""Validate MANIFEST.json and every evidence/<id>.json against the schemas in /root/.vp, and check the internal consistency the
checks promise: for a held property every generated obligation is discharged (or a listed known finding), levels agree with the manifest."""
import json, sys, os
sys.path.insert(0, '/opt/veriftools/pyvenv/lib/python3.11/site-packages')
import jsonschema
HERE = os.path.dirname(os.path.dirname(os.path.abspath(__file__)))
bad = 0
man = json.load(open(os.path.join(HERE, 'MANIFEST.json')))
jsonschema.validate(man, json.load(open('/root/.vp/MANIFEST.schema.json')))
es = json.load(open('/root/.vp/EVIDENCE.schema.json'))
for c in man['checks']:
    pid = c['property_id']
    p = os.path.join(HERE, 'evidence', pid + '.json')
    if not os.path.exists(p):
        print(pid, 'NO EVIDENCE'); bad += 1; continue
    e = json.load(open(p))
    try:
        jsonschema.validate(e, es)
    except jsonschema.ValidationError as x:
        print(pid, 'schema:', str(x).split('\n')[0]); bad += 1
    cov = e.get('coverage', {})
    msg = []
    if e.get('level') != c.get('level', e.get('level')):
        msg.append('level %r vs manifest %r' % (e.get('level'), c.get('level')))
    for k in ('violations', 'undecided'):
        if cov.get(k):
            msg.append('%s=%r' % (k, cov.get(k)))
    print(pid, e.get('level'), 'obligations', cov.get('obligations'), 'discharged', cov.get('discharged'), 'known', cov.get('known_findings', cov.get('known')), '; '.join(msg))
sys.exit(1 if bad else 0)
