"""Extraction: compile the real sources in /repo/src to textual LLVM IR on every run."""
import os
import subprocess
import hashlib

REPO = os.environ.get('VERIF_REPO', '/repo')
HERE = os.path.dirname(os.path.dirname(os.path.abspath(__file__)))
STUBS = os.path.join(HERE, 'stubs')

HEADERS = """
#include <ace_time/common/compat.h>
#include <ace_time/common/common.h>
#include <ace_time/common/DateStrings.h>
#include <ace_time/internal/ZoneContext.h>
#include <ace_time/internal/ZoneInfo.h>
#include <ace_time/internal/ZonePolicy.h>
#include <ace_time/internal/Brokers.h>
#include <ace_time/zonedb/zone_policies.h>
#include <ace_time/zonedb/zone_infos.h>
#include <ace_time/zonedb/zone_registry.h>
#include <ace_time/zonedbx/zone_policies.h>
#include <ace_time/zonedbx/zone_infos.h>
#include <ace_time/zonedbx/zone_registry.h>
#include <ace_time/ZoneRegistrar.h>
#include <ace_time/LocalDate.h>
#include <ace_time/local_date_mutation.h>
#include <ace_time/LocalTime.h>
#include <ace_time/LocalDateTime.h>
#include <ace_time/TimeOffset.h>
#include <ace_time/time_offset_mutation.h>
#include <ace_time/OffsetDateTime.h>
#include <ace_time/ZoneProcessor.h>
#include <ace_time/BasicZoneProcessor.h>
#include <ace_time/ExtendedZoneProcessor.h>
#include <ace_time/ZoneProcessorCache.h>
#include <ace_time/ZoneManager.h>
#include <ace_time/TimeZoneData.h>
#include <ace_time/TimeZone.h>
#include <ace_time/BasicZone.h>
#include <ace_time/ExtendedZone.h>
#include <ace_time/ZonedDateTime.h>
#include <ace_time/zoned_date_time_mutation.h>
#include <ace_time/TimePeriod.h>
#include <ace_time/time_period_mutation.h>
#include <ace_time/clock/Clock.h>
#include <ace_time/clock/SystemClock.h>
#include <ace_time/clock/SystemClockLoop.h>
"""

# The logic .cpp files of the library (the zonedb/zonedbx tables are compiled separately).
LOGIC_CPP = [
    'LocalDate.cpp', 'LocalTime.cpp', 'LocalDateTime.cpp', 'TimeOffset.cpp', 'OffsetDateTime.cpp',
    'ZonedDateTime.cpp', 'TimeZone.cpp', 'TimePeriod.cpp', 'BasicZoneProcessor.cpp', 'ExtendedZoneProcessor.cpp',
    'common/DateStrings.cpp',
]

INSTANTIATE = """
using namespace ace_time;
template class ace_time::ZoneRegistrar<basic::ZoneInfo, basic::ZoneRegistryBroker, basic::ZoneInfoBroker, acetime_strcmp_P, ace_common::strcmp_PP>;
template class ace_time::ZoneRegistrar<extended::ZoneInfo, extended::ZoneRegistryBroker, extended::ZoneInfoBroker, acetime_strcmp_P, ace_common::strcmp_PP>;
template class ace_time::extended::TransitionStorage<8>;
template class ace_time::BasicZoneManager<1>;
template class ace_time::BasicZoneManager<2>;
template class ace_time::BasicZoneManager<3>;
template class ace_time::BasicZoneManager<4>;
template class ace_time::ExtendedZoneManager<1>;
template class ace_time::ExtendedZoneManager<2>;
template class ace_time::ExtendedZoneManager<3>;
template class ace_time::ExtendedZoneManager<4>;
template void ace_common::incrementMod<uint8_t>(uint8_t&, uint8_t);
template void ace_common::incrementModOffset<uint8_t>(uint8_t&, uint8_t, uint8_t);
"""

CXXFLAGS = ['-std=c++11', '-DUNIX_HOST_DUINO', '-I' + STUBS, '-I' + os.path.join(REPO, 'src'), '-Wno-everything']
if os.environ.get('ACETIME_VERIF', '1') == '1':
    CXXFLAGS.append('-DACE_TIME_VERIF_HOOKS=1')


def scratch():
    d = os.environ.get('VERIF_SCRATCH')
    if not d:
        d = '/var/tmp/acetime-verif.%d' % os.getpid()
        os.environ['VERIF_SCRATCH'] = d
    os.makedirs(d, exist_ok=True)
    return d


def logic_ll(target=None):
    """Compile one TU with every header + logic .cpp of /repo/src; returns path of the .ll file."""
    d = scratch()
    src = os.path.join(d, 'emit%s.cpp' % ('_' + target if target else ''))
    with open(src, 'w') as f:
        f.write(HEADERS)
        for c in LOGIC_CPP:
            f.write('#include <ace_time/%s>\n' % c)
        f.write(INSTANTIATE)
    out = src[:-4] + '.ll'
    # the proofs read the code as it ships: the instrumentation hooks (guarded by ACE_TIME_VERIF_HOOKS) are for the native
    # bounded harnesses only, and stay out of the IR
    cmd = ['clang++'] + [f for f in CXXFLAGS if not f.startswith('-DACE_TIME_VERIF_HOOKS')] + ['-O0', '-g', '-fno-discard-value-names', '-fno-access-control',
                                      '-femit-all-decls', '-S', '-emit-llvm', src, '-o', out]
    if target:
        # cross target (AVR: 16-bit int and pointers): freestanding, with minimal libc declarations instead of the host's glibc
        cmd[1:1] = ['--target=' + target, '-ffreestanding', '-I' + os.path.join(STUBS, 'avrlibc'), '-Wno-avr-rtlib-linking-quirks']
    r = subprocess.run(cmd, capture_output=True, text=True)
    if r.returncode != 0:
        raise RuntimeError('clang failed on the real sources:\n' + r.stderr[-4000:])
    return out


def source_hash(paths):
    h = hashlib.sha256()
    for p in paths:
        with open(os.path.join(REPO, p), 'rb') as f:
            h.update(f.read())
    return h.hexdigest()[:16]
