"""Check driver:  python3-vt -m vc.check <PROPERTY> [--tier quick|thorough]

exit 0  every obligation discharged / every bounded run clean (KNOWN-FINDING lines allowed)
exit 1  VIOLATION property=<id> replay=<path>   (replayed, or ... no-failing-input-found)
exit 2  undecided (solver unknown on every back end, path budget, construct out of reach)
exit 3  the checker itself failed
"""
import argparse
import importlib
import json
import os
import shutil
import sys
import time
import traceback

HERE = os.path.dirname(os.path.dirname(os.path.abspath(__file__)))
sys.path.insert(0, HERE)

import z3  # noqa: E402
from vc import build, ir, symex, smt, replay  # noqa: E402

CONTRACT_MODULES = ['calendar', 'period', 'clock', 'registrar', 'timezone', 'zoned', 'ruleday', 'encoding', 'printing', 'extended', 'binding', 'basicleaf', 'extleaf', 'datestrings']


class Run:
    def __init__(self, prop, tier, seed):
        self.prop = prop
        self.tier = tier
        self.seed = seed
        self.t0 = time.time()
        self.obligations = []      # proof obligations owned by this property
        self.functions = {}        # name -> dict(paths=, obligations=, src=)
        self.out_of_reach = []     # (function, reason)
        self.undecided = []
        self.violations = []       # dict(key=, what=, replay=, replayed=bool)
        self.known_hits = []
        self.assumptions = []
        self.bounded = []          # list of dict(name=, bound=, evaluations=, distinct=, rule=, samples=)
        self.notes = []
        self.covers = []
        self.canaries = []
        self.ground = []           # ground obligations (name, ok, detail)
        self.mod = None
        self.reg = None
        self.solver_time = 0.0
        self.backends = {}
        self.samples = []
        self.refutation = None     # a concrete failing input found by the property's bounded refuter

    def ex_for(self, o=None):
        return symex.Executor(self.mod, self.reg.REG)

    def log(self, *a):
        print('[%s %6.1fs]' % (self.prop, time.time() - self.t0), *a, flush=True)


def load_contracts():
    from contracts import reg
    for m in CONTRACT_MODULES:
        importlib.import_module('contracts.' + m)
    return reg


def owned(prop, o):
    safety = o.kind in symex.SAFETY_KINDS
    if prop == 'C09':
        c = getattr(o, 'contract', None)
        return safety or (c is not None and 'C09' in c.props)
    return not safety


def verify_functions(R, names, engine_opts=None, mod=None, tag=None):
    """Generate obligations of each named contract; returns list of all obligations generated."""
    allobs = []
    for n in names:
        c = R.reg.REG[n]
        ex = symex.Executor(mod or R.mod, R.reg.REG, options=engine_opts)
        if mod is None:
            R.ex = ex
        t1 = time.time()
        try:
            obs = ex.verify(c)
        except KeyError as e:
            if 'function not found in IR' not in str(e):
                raise
            # the contracted signature no longer exists (renamed, or a parameter type changed): the contract does not fit the code;
            # undecided for the proof part -- the property's bounded run still decides the behaviour on concrete inputs
            R.out_of_reach.append((n, 'no function with the contracted signature in the current source: %s' % e))
            R.log('OUT OF REACH', n, e)
            continue
        except symex.OutOfReach as e:
            R.out_of_reach.append((n, str(e)))
            R.log('OUT OF REACH', n, e)
            continue
        except (z3.Z3Exception, AttributeError, TypeError, KeyError, IndexError) as e:
            if tag is None or (isinstance(e, KeyError) and 'function not found in IR' in str(e)):
                raise
            # cross-target pass: a contract or an environment model that fixes the host's pointer / int width does not apply
            R.out_of_reach.append((n, 'contract or model written for the host data model: %s' % str(e)[:90]))
            continue
        except symex.Undecided as e:
            R.undecided.append((n, str(e)))
            R.log('UNDECIDED', n, e)
            continue
        fn = ex.lookup_fn(n)
        for o in obs:
            o.contract = c
            o.fnobj = fn if tag is None else None      # no native replay for the cross-target pass
            o.observe = None
            if tag:
                o.name = o.name + '@' + tag
                o.info['target'] = tag
        R.functions[n if tag is None else '[%s] %s' % (tag, n)] = dict(paths=ex.paths_top, generated=len(obs), src='%s:%s' % (fn.src_file, fn.src_line),
                              gen_s=round(time.time() - t1, 2))
        R.covers.extend(ex.covers)
        # observation terms for replay of entry-state counterexamples
        try:
            obsv = replay.observe_terms(ex, fn, ex.top_ctx.args, z3.Const('mem0', ex.mem_sort))
        except Exception:
            obsv = {}
        for o in obs:
            o.info['observe'] = obsv
        allobs.extend(obs)
    return allobs


def discharge(R, obs, timeout):
    mine = [o for o in obs if owned(R.prop, o)]
    for o in obs:
        if not owned(R.prop, o) and o.status is None:
            o.status = 'not-owned'
    t = time.time()
    smt.discharge(mine, timeout=timeout)
    R.solver_time += time.time() - t
    R.obligations.extend(mine)
    for o in mine:
        R.backends[o.backend] = R.backends.get(o.backend, 0) + 1
    return mine


def load_known():
    p = os.path.join(HERE, 'known_findings.json')
    if not os.path.exists(p):
        return []
    with open(p) as f:
        return json.load(f).get('findings', [])


def triage(R):
    """Turn failed obligations into violations (with replay) / undecided."""
    known = [k for k in load_known() if k['property'] == R.prop and k.get('status') == 'known']
    kmap = {k['key']: k for k in known}
    rdir = os.path.join(HERE, 'replays', R.prop)
    for o in R.obligations:
        if o.status == 'unsat':
            continue
        if o.status == 'unknown':
            if R.refutation and getattr(R, 'refutation_applies', lambda o: True)(o):
                # undecided by the solvers, but the property's refuter found a concrete failing input on the real code
                base = o.name.split('#case-')[0]
                if not any(v['key'] == base for v in R.violations):
                    os.makedirs(rdir, exist_ok=True)
                    path = os.path.join(rdir, _safe(base) + '.json')
                    with open(path, 'w') as f:
                        json.dump(dict(obligation=o.name, kind=o.kind, solver_output='unknown', refuter_found=R.refutation,
                                       replayed_on_real_code=True), f, indent=1, default=str)
                    R.violations.append(dict(key=base, replay=path, replayed=True, what='undecided obligation + concrete failing input'))
                continue
            kk0 = o.name.split('#case-')[0]
            if kk0 not in kmap and kk0.endswith('@avr') and kk0[:-4] in kmap:
                kk0 = kk0[:-4]
            if kk0 in kmap:
                # a listed known finding whose counterexample the solvers did not re-derive within this run's budget: still a
                # known finding (it suppresses nothing else), not an undecided obligation of the unchanged property
                if not any(k is kmap[kk0] for k, _ in R.known_hits):
                    R.known_hits.append((kmap[kk0], dict(obligation=o.name, solver_output='unknown', note='not re-derived in this run (solver budget exhausted)')))
                continue
            R.undecided.append((o.name, 'solver returned unknown on every back end (%.0fs)' % o.time))
            continue
        # sat
        key = o.name
        if any(v['key'] == key.split('#case-')[0] for v in R.violations):
            continue
        rep = dict(obligation=o.name, kind=o.kind, function=o.fn, line=o.line, info={k: v for k, v in o.info.items() if k != 'observe'},
                   model={k: v for k, v in (o.model or {}).items() if not k.startswith('obs!m')},
                   backend=o.backend)
        replayed = False
        fnobj = getattr(o, 'fnobj', None)
        native = None
        if fnobj is not None and o.model is not None and not o.info.get('no_entry_state'):
            tag = '%s_%d' % (R.prop, len(R.violations) + len(R.known_hits))
            try:
                native = replay.run_native(R.mod, fnobj, o.model, tag)
            except Exception as e:
                native = dict(status='error', stderr=repr(e))
            rep['native'] = {k: v for k, v in native.items() if k != 'src'}
            if native.get('src') and os.path.exists(native['src']):
                os.makedirs(rdir, exist_ok=True)
                dst = os.path.join(rdir, _safe(o.name) + '.cpp')
                shutil.copy(native['src'], dst)
                rep['harness'] = dst
            if o.kind in symex.SAFETY_KINDS or o.kind in ('variant', 'unwind'):
                replayed = native['status'] in ('sanitizer', 'timeout')
            elif native['status'] == 'ok' and o.kind == 'post':
                try:
                    pre_ok, res = replay.eval_post(R.ex_for(o), o.contract, fnobj, o.model, native['out'])
                    rep['post_on_native_values'] = res
                    replayed = any(v is False for _, v in res)
                except Exception as e:
                    rep['post_eval_error'] = repr(e)
        if not replayed and getattr(R, 'custom_replay', None) is not None:
            try:
                cr = R.custom_replay(R, o)
            except Exception as e:
                cr = None
                rep['custom_replay_error'] = repr(e)
            if cr is not None:
                replayed, rep['custom_replay'] = cr
        if not replayed and R.refutation and getattr(R, 'refutation_applies', lambda o: True)(o):
            rep['refuter_found'] = R.refutation
            replayed = True
        rep['replayed_on_real_code'] = replayed
        kk = key.split('#case-')[0]
        if kk not in kmap and kk.endswith('@avr') and kk[:-4] in kmap:
            kk = kk[:-4]          # the same obligation under the 16-bit data model: one finding
        if kk in kmap:
            if not any(k is kmap[kk] for k, _ in R.known_hits):
                R.known_hits.append((kmap[kk], rep))
            continue
        base = o.name.split('#case-')[0]
        if any(v['key'] == base for v in R.violations):
            continue
        key = base
        os.makedirs(rdir, exist_ok=True)
        path = os.path.join(rdir, _safe(base) + '.json')
        rep['solver_output'] = 'sat'
        rep['smt2_head'] = getattr(o, 'smt2', '')[:4000]
        with open(path, 'w') as f:
            json.dump(rep, f, indent=1, default=str)
        R.violations.append(dict(key=key, replay=path, replayed=replayed, what=o.info.get('what', o.kind)))


def _safe(s):
    return ''.join(ch if ch.isalnum() or ch in '-_.' else '_' for ch in s)[:150]


def write_evidence(R, level, explanation, extra_assumptions=()):
    # obligations that re-confirm a listed known finding are reported as findings, not counted as proof obligations
    known_keys = set(k['key'] for k, _ in R.known_hits)
    def _kkey(o):
        k = o.name.split('#case-')[0]
        return k[:-4] if k.endswith('@avr') and k not in known_keys else k
    obs = [o for o in R.obligations if _kkey(o) not in known_keys]
    n = len(obs) + len(R.ground)
    disc = sum(1 for o in obs if o.status == 'unsat') + sum(1 for g in R.ground if g[1])
    samples = []
    for o in obs[:400]:
        if o.backend != 'simplifier' and len(samples) < 3:
            samples.append(dict(obligation=o.name, kind=o.kind, status=o.status, backend=o.backend,
                                time_s=round(o.time, 2), smt2=getattr(o, 'smt2', '')[:1500]))
    for g in R.ground[:2]:
        samples.append(dict(ground=g[0], ok=g[1], detail=str(g[2])[:300]))
    cov = dict(
        obligations=n, discharged=disc,
        checker_cmd='python3-vt -m vc.check %s --tier %s' % (R.prop, R.tier),
        trusted_base=TRUSTED,
        functions_under_contract=R.functions,
        out_of_reach=R.out_of_reach,
        undecided=R.undecided,
        backends=R.backends, solver_time_s=round(R.solver_time, 1),
        covers=[list(map(str, c)) for c in R.covers][:200],
        canaries=R.canaries,
        ground_obligations=len(R.ground),
        explanation=explanation,
        samples=samples + R.samples[:6],
        known_findings_reconfirmed=[k['key'] for k, _ in R.known_hits],
        undischarged_listed_as_known_findings=len(R.obligations) - len(obs),
    )
    if R.bounded:
        cov['bounded'] = R.bounded
        cov['evaluations'] = sum(b.get('evaluations', 0) for b in R.bounded)
        cov['distinct_nontrivial'] = sum(b.get('distinct_nontrivial', 0) for b in R.bounded)
        cov['rule'] = ' | '.join('%s: %s' % (b['name'], b.get('rule', '')) for b in R.bounded)
        for b in R.bounded:
            cov['samples'].extend(b.get('samples', [])[:3])
    if level in ('exploration',) and 'evaluations' not in cov:
        cov['evaluations'] = n
        cov['distinct_nontrivial'] = n
        cov['rule'] = 'one case per obligation'
    ev = dict(property_id=R.prop, tier=R.tier, seed=R.seed, level=level, coverage=cov,
              assumptions=list(ASSUMPTIONS) + list(R.assumptions) + list(extra_assumptions),
              wall_s=round(time.time() - R.t0, 1), violations=len(R.violations))
    os.makedirs(os.path.join(HERE, 'evidence'), exist_ok=True)
    with open(os.path.join(HERE, 'evidence', R.prop + '.json'), 'w') as f:
        json.dump(ev, f, indent=1, default=str)


TRUSTED = [
    'clang 14 front end and -O0 lowering to LLVM IR',
    'vc/ir.py + vc/symex.py: IR reader and bit-vector / byte-memory semantics of the instruction subset',
    'z3 5.1 (python API), z3 4.8.12, cvc5 1.0.3',
    'stub headers /verif/stubs (Arduino Print, pgmspace, AceCommon) -- external code not in the repository',
]
ASSUMPTIONS = [
    'x86-64 data model (int 32, long 64, pointer 64) unless a check states the AVR pass ran',
    'functional obligations use two\'s-complement wrap-around for nsw/nuw arithmetic; overflow freedom is a separate safety obligation owned by C09',
    'pointer/reference parameters designate valid, non-wrapping objects of at least their dereferenceable size',
    'PROGMEM reads are plain loads; strcmp_P = strcmp (host stubs)',
]


def short(n):
    return symex.short_fn(n) if hasattr(symex, 'short_fn') else n


def finish(R, level, explanation):
    vac = [c for c in R.covers if (c[1] == 'requires-satisfiable' and c[2] == 'unsat') or (c[1] == 'exit-reachable' and c[2] in ('unsat', 'no-exit-path')) or (c[1] == 'hypotheses-satisfiable' and c[2] == 'unsat')]
    if vac:
        R.log('VACUOUS precondition(s) / unreachable exit:', vac)
        write_evidence(R, level, 'vacuous precondition: ' + repr(vac))
        return 3
    if R.refutation and (not any(o.status == 'sat' for o in R.obligations) or getattr(R, 'refutation_applies', None) is not None):
        # the bounded stand-in found a failing input although every proof obligation passed
        rdir = os.path.join(HERE, 'replays', R.prop)
        os.makedirs(rdir, exist_ok=True)
        path = os.path.join(rdir, 'bounded_refutation.json')
        with open(path, 'w') as f:
            json.dump(R.refutation, f, indent=1, default=str)
        R.violations.append(dict(key='bounded:' + str(R.refutation.get('case', ''))[:120], replay=path, replayed=True, what='bounded stand-in'))
    for g in R.ground:
        if not g[1]:
            rdir = os.path.join(HERE, 'replays', R.prop)
            os.makedirs(rdir, exist_ok=True)
            path = os.path.join(rdir, 'ground_%s.json' % _safe(g[0])[:80])
            with open(path, 'w') as f:
                json.dump(dict(kind='ground obligation over the shipped constants fails', obligation=g[0], failing=str(g[2])[:4000]), f, indent=1)
            R.violations.append(dict(key='ground:' + g[0][:120], replay=path, replayed=True, what='ground obligation'))
    dead = [c for c in R.covers if c[1] == 'dead-path']
    if dead:
        R.notes.append('paths that ended because an assumed clause contradicted the path condition (neither side of a branch feasible): %d -- %r' % (len(dead), sorted(set(c[2] for c in dead))[:12]))
        R.log('dead paths (assumed clause contradicts the path):', len(dead), sorted(set((short(c[0]), c[2]) for c in dead))[:8])
    slow = sorted(R.obligations, key=lambda o: -o.time)[:8]
    R.log('slowest:', [(o.name, round(o.time, 1), o.backend) for o in slow if o.time > 1])
    triage(R)
    for k, rep in R.known_hits:
        print('KNOWN-FINDING: property=%s %s' % (R.prop, k['what']))
    write_evidence(R, level, explanation)
    if R.violations:
        for v in R.violations:
            tail = '' if v['replayed'] else ' no-failing-input-found'
            print('VIOLATION property=%s replay=%s%s' % (R.prop, v['replay'], tail))
        R.log('violations:', [v['key'] for v in R.violations])
        return 1
    if dead:
        # no obligation failed, yet some path ended because an ASSUMED clause (callee postcondition, definition, invariant) contradicted
        # the path condition: whatever follows on that path was never checked.  A checker problem, not a verdict about the code.
        R.log('VACUOUS: %d path(s) ended on a contradictory assumption and no obligation failed' % len(dead))
        return 3
    if R.undecided or R.out_of_reach:
        R.log('UNDECIDED:', R.undecided[:10], R.out_of_reach[:10])
        return 2
    n = len(R.obligations) + len(R.ground)
    if n == 0 and not R.bounded:
        R.log('no obligations generated: vacuous run')
        return 3
    R.log('held: %d obligations discharged, %d ground, bounded=%s' % (
        sum(1 for o in R.obligations if o.status == 'unsat'), len(R.ground),
        [(b['name'], b['evaluations']) for b in R.bounded]))
    return 0


def main():
    ap = argparse.ArgumentParser()
    ap.add_argument('prop')
    ap.add_argument('--tier', default=os.environ.get('VERIF_TIER', 'quick'))
    args = ap.parse_args()
    seed = int(os.environ.get('VERIF_SEED', '1'))
    os.environ.setdefault('ACETIME_VERIF', '1')
    d = '/var/tmp/acetime-verif.%d' % os.getpid()
    os.environ['VERIF_SCRATCH'] = d
    os.makedirs(d, exist_ok=True)
    os.environ['VERIF_TIER'] = args.tier
    R = Run(args.prop, args.tier, seed)
    code = 3
    try:
        pm = importlib.import_module('props.' + args.prop)
        R.reg = load_contracts()
        code = pm.run(R)
    except SystemExit:
        raise
    except Exception:
        traceback.print_exc()
        code = 3
    finally:
        shutil.rmtree(d, ignore_errors=True)
    sys.exit(code)


if __name__ == '__main__':
    main()
