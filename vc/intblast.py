"""Translate a (mixed) bit-vector / integer formula into pure linear integer
arithmetic with mod/div by constants ("int-blasting"), for obligations that
relate machine values to unbounded ghost quantities (time in ms, instants).

Soundness: every bit-vector term is mapped to an integer term denoting its
unsigned value; operations outside the supported set are replaced by a fresh
integer variable in [0, 2^w) (the same term always maps to the same variable).
That is an abstraction: `unsat` of the translated query implies `unsat` of the
original, so a discharged obligation is discharged.  `sat` answers of the
translated query are NOT trusted (the abstraction may be the cause): the
caller falls back to the exact bit-vector query for counterexamples.
"""
import z3

_K = z3  # alias


def imod(x, m):
    """x mod m, collapsing nested moduli: (y mod n) mod m == y mod m when m divides n"""
    if z3.is_int_value(x):
        return z3.IntVal(x.as_long() % m)
    if z3.is_app(x) and x.decl().kind() == z3.Z3_OP_MOD:
        y, n = x.children()
        if z3.is_int_value(n) and n.as_long() % m == 0:
            return imod(y, m)
    return x % m


class IntBlaster:
    def __init__(self):
        self.cache = {}
        self.side = []      # range constraints of fresh variables
        self.n = 0

    def fresh(self, w, hint='t'):
        self.n += 1
        v = z3.Int('ib!%s!%d' % (hint, self.n))
        self.side.append(z3.And(v >= 0, v < (1 << w)))
        return v

    # unsigned value of a BV term
    def u(self, t):
        key = t.get_id()
        if key in self.cache:
            return self.cache[key][1]
        r = self._u(t)
        self.cache[key] = (t, r)   # keep t alive: z3 reuses ids of collected terms
        return r

    def s(self, t):
        """signed value"""
        w = t.size()
        x = self.u(t)
        return z3.If(x >= (1 << (w - 1)), x - (1 << w), x)

    def _u(self, t):
        w = t.size()
        M = 1 << w
        k = t.decl().kind()
        ch = t.children()
        if z3.is_bv_value(t):
            return z3.IntVal(t.as_long())
        if k == z3.Z3_OP_BADD:
            acc = self.u(ch[0])
            for c in ch[1:]:
                acc = acc + self.u(c)
            return imod(acc, M)
        if k == z3.Z3_OP_BSUB:
            acc = self.u(ch[0])
            for c in ch[1:]:
                acc = acc - self.u(c)
            return imod(acc, M)
        if k == z3.Z3_OP_BNEG:
            return imod(-self.u(ch[0]), M)
        if k == z3.Z3_OP_BMUL:
            consts = [c for c in ch if z3.is_bv_value(c)]
            others = [c for c in ch if not z3.is_bv_value(c)]
            if len(others) <= 1:
                cv = 1
                for c in consts:
                    cv *= c.as_long()
                # use the signed reading of small negative constants to keep numbers small
                if cv % M >= M // 2:
                    cvs = (cv % M) - M
                else:
                    cvs = cv % M
                if not others:
                    return z3.IntVal(cv % M)
                return imod(cvs * self.u(others[0]), M)
            return self.fresh(w, 'mul')
        if k == z3.Z3_OP_ZERO_EXT:
            return self.u(ch[0])
        if k == z3.Z3_OP_SIGN_EXT:
            a = ch[0]
            wa = a.size()
            x = self.u(a)
            return z3.If(x >= (1 << (wa - 1)), x + (M - (1 << wa)), x)
        if k == z3.Z3_OP_EXTRACT:
            hi, lo = t.params()
            x = self.u(ch[0])
            if lo == 0:
                return imod(x, 1 << (hi + 1))
            return (x / (1 << lo)) % (1 << (hi - lo + 1))
        if k == z3.Z3_OP_CONCAT:
            acc = z3.IntVal(0)
            for c in ch:
                acc = acc * (1 << c.size()) + self.u(c)
            return acc
        if k == z3.Z3_OP_ITE:
            return z3.If(self.b(ch[0]), self.u(ch[1]), self.u(ch[2]))
        if k == z3.Z3_OP_INT2BV:
            return imod(self.i(ch[0]), M)
        if k == z3.Z3_OP_BUDIV or k == z3.Z3_OP_BUDIV_I:
            if z3.is_bv_value(ch[1]) and ch[1].as_long() > 0:
                return self.u(ch[0]) / ch[1].as_long()
            return self.fresh(w, 'udiv')
        if k == z3.Z3_OP_BUREM or k == z3.Z3_OP_BUREM_I:
            if z3.is_bv_value(ch[1]) and ch[1].as_long() > 0:
                return self.u(ch[0]) % ch[1].as_long()
            return self.fresh(w, 'urem')
        if k in (z3.Z3_OP_BSDIV, z3.Z3_OP_BSDIV_I, z3.Z3_OP_BSREM, z3.Z3_OP_BSREM_I):
            if z3.is_bv_value(ch[1]) and 0 < ch[1].as_long() < (1 << (w - 1)):
                cst = ch[1].as_long()
                x = self.s(ch[0])
                if k in (z3.Z3_OP_BSDIV, z3.Z3_OP_BSDIV_I):
                    q = z3.If(x >= 0, x / cst, -((-x) / cst))     # C truncating division
                    return imod(q, M)
                r = z3.If(x >= 0, x % cst, -((-x) % cst))
                return imod(r, M)
            return self.fresh(w, 'sdiv')
        if k == z3.Z3_OP_BAND:
            # mask with 2^k - 1
            consts = [c for c in ch if z3.is_bv_value(c)]
            others = [c for c in ch if not z3.is_bv_value(c)]
            if len(consts) == 1 and len(others) == 1:
                m = consts[0].as_long()
                if m & (m + 1) == 0:
                    return self.u(others[0]) % (m + 1)
            return self.fresh(w, 'and')
        if k == z3.Z3_OP_BSHL and z3.is_bv_value(ch[1]):
            return (self.u(ch[0]) * (1 << ch[1].as_long())) % M
        if k == z3.Z3_OP_BLSHR and z3.is_bv_value(ch[1]):
            return self.u(ch[0]) / (1 << ch[1].as_long())
        # uninterpreted constants, selects, anything else: atomic
        return self.fresh(w, 'v')

    # integer-sorted term
    def i(self, t):
        key = ('i', t.get_id())
        if key in self.cache:
            return self.cache[key][1]
        k = t.decl().kind()
        ch = t.children()
        if k == z3.Z3_OP_BV2INT:
            a = ch[0]
            signed = False
            try:
                signed = bool(t.params()) and t.params()[0] == 1
            except Exception:
                signed = False
            r = self.s(a) if signed else self.u(a)
        elif z3.is_int_value(t) or not ch:
            r = t
        elif k == z3.Z3_OP_ITE:
            r = z3.If(self.b(ch[0]), self.i(ch[1]), self.i(ch[2]))
        else:
            r = t.decl()(*[self.i(c) if z3.is_int(c) else (self.b(c) if z3.is_bool(c) else c) for c in ch])
        self.cache[key] = (t, r)
        return r

    # boolean term
    def b(self, t):
        key = ('b', t.get_id())
        if key in self.cache:
            return self.cache[key][1]
        r = self._b(t)
        self.cache[key] = (t, r)
        return r

    def _b(self, t):
        k = t.decl().kind()
        ch = t.children()
        if k in (z3.Z3_OP_TRUE, z3.Z3_OP_FALSE):
            return t
        if k == z3.Z3_OP_AND:
            return z3.And([self.b(c) for c in ch])
        if k == z3.Z3_OP_OR:
            return z3.Or([self.b(c) for c in ch])
        if k == z3.Z3_OP_NOT:
            return z3.Not(self.b(ch[0]))
        if k == z3.Z3_OP_IMPLIES:
            return z3.Implies(self.b(ch[0]), self.b(ch[1]))
        if k == z3.Z3_OP_XOR:
            return z3.Xor(self.b(ch[0]), self.b(ch[1]))
        if k == z3.Z3_OP_ITE:
            return z3.If(self.b(ch[0]), self.b(ch[1]), self.b(ch[2]))
        if k in (z3.Z3_OP_EQ, z3.Z3_OP_DISTINCT):
            a, c = ch[0], ch[1]
            if z3.is_bv(a):
                e = self.u(a) == self.u(c)
            elif z3.is_bool(a):
                e = self.b(a) == self.b(c)
            elif z3.is_int(a):
                e = self.i(a) == self.i(c)
            else:
                # arrays etc.: atomic boolean
                return z3.Bool('ib!eq!%d' % t.get_id())
            return e if k == z3.Z3_OP_EQ else z3.Not(e)
        if k == z3.Z3_OP_ULEQ:
            return self.u(ch[0]) <= self.u(ch[1])
        if k == z3.Z3_OP_ULT:
            return self.u(ch[0]) < self.u(ch[1])
        if k == z3.Z3_OP_UGEQ:
            return self.u(ch[0]) >= self.u(ch[1])
        if k == z3.Z3_OP_UGT:
            return self.u(ch[0]) > self.u(ch[1])
        if k == z3.Z3_OP_SLEQ:
            return self.s(ch[0]) <= self.s(ch[1])
        if k == z3.Z3_OP_SLT:
            return self.s(ch[0]) < self.s(ch[1])
        if k == z3.Z3_OP_SGEQ:
            return self.s(ch[0]) >= self.s(ch[1])
        if k == z3.Z3_OP_SGT:
            return self.s(ch[0]) > self.s(ch[1])
        if k in (z3.Z3_OP_LE, z3.Z3_OP_LT, z3.Z3_OP_GE, z3.Z3_OP_GT):
            return t.decl()(self.i(ch[0]), self.i(ch[1]))
        if not ch:
            return t
        return z3.Bool('ib!b!%d' % t.get_id())


def translate(assumptions, goal):
    """returns (assumptions', goal') over Int/Bool only"""
    ib = IntBlaster()
    keep = [z3.simplify(a) if not isinstance(a, bool) else z3.BoolVal(a) for a in assumptions] + [z3.simplify(goal)]
    asm = [ib.b(a) for a in keep[:-1]]
    g = ib.b(keep[-1])
    ib.keep = keep
    return ib.side + asm, g
