"""Reader for the textual LLVM IR (LLVM 14, typed pointers) that clang emits at
-O0 -g -fno-discard-value-names for the real AceTime sources.

Only the instruction subset listed in DESIGN.md section 2.2 is understood; any
other instruction makes the *function* unreadable (Function.unsupported is
set to the offending line), which the engine reports as "out of reach" --
never silently skipped.
"""
import re
import subprocess
from collections import OrderedDict

# ----------------------------------------------------------------------------
# Types
# ----------------------------------------------------------------------------


class Ty:
    pass


class IntTy(Ty):
    def __init__(self, bits):
        self.bits = bits

    def __repr__(self):
        return 'i%d' % self.bits


class PtrTy(Ty):
    def __init__(self, pointee):
        self.pointee = pointee

    def __repr__(self):
        return '%r*' % (self.pointee,)


class ArrTy(Ty):
    def __init__(self, n, elem):
        self.n = n
        self.elem = elem

    def __repr__(self):
        return '[%d x %r]' % (self.n, self.elem)


class StructTy(Ty):
    def __init__(self, elems, packed=False):
        self.elems = elems
        self.packed = packed

    def __repr__(self):
        return '{%s}' % ', '.join(map(repr, self.elems))


class NamedTy(Ty):
    def __init__(self, name):
        self.name = name

    def __repr__(self):
        return '%' + self.name


class VoidTy(Ty):
    def __repr__(self):
        return 'void'


class FnTy(Ty):
    def __init__(self, ret, params, vararg):
        self.ret = ret
        self.params = params
        self.vararg = vararg

    def __repr__(self):
        return 'fn'


class OpaqueTy(Ty):
    def __repr__(self):
        return 'opaque'


class OtherTy(Ty):
    """float/double/metadata/label etc: parsed, never interpreted."""

    def __init__(self, name):
        self.name = name

    def __repr__(self):
        return self.name


TOKEN_RE = re.compile(r'''
    \s*(?:
      (?P<str>c"(?:[^"\\]|\\[0-9A-Fa-f]{2}|\\\\)*")
    | (?P<lname>%"(?:[^"\\]|\\.)*"|%[-A-Za-z0-9_.$]+)
    | (?P<gname>@"(?:[^"\\]|\\.)*"|@[-A-Za-z0-9_.$]+)
    | (?P<meta>![-A-Za-z0-9_.]*)
    | (?P<attr>\#[0-9]+)
    | (?P<num>-?[0-9]+(?:\.[0-9]+(?:e[+-]?[0-9]+)?)?|0x[0-9A-Fa-f]+)
    | (?P<word>[A-Za-z_][A-Za-z0-9_.]*)
    | (?P<dots>\.\.\.)
    | (?P<punct><\{|\}>|[(){}\[\]<>,=*:])
    )''', re.X)


def tokenize(s):
    toks = []
    pos = 0
    n = len(s)
    while pos < n:
        m = TOKEN_RE.match(s, pos)
        if not m:
            if s[pos:].strip() == '':
                break
            raise ValueError('cannot tokenize at %r' % s[pos:pos + 40])
        pos = m.end()
        kind = m.lastgroup
        toks.append((kind, m.group(kind)))
    return toks


def _unq(name):
    # %"foo bar" -> foo bar ; %foo -> foo
    name = name[1:]
    if name.startswith('"'):
        name = name[1:-1]
    return name


class P:
    """Token cursor."""

    def __init__(self, toks):
        self.t = toks
        self.i = 0

    def peek(self, k=0):
        if self.i + k < len(self.t):
            return self.t[self.i + k]
        return (None, None)

    def next(self):
        tok = self.t[self.i]
        self.i += 1
        return tok

    def accept(self, val):
        if self.peek()[1] == val:
            self.i += 1
            return True
        return False

    def expect(self, val):
        tok = self.next()
        if tok[1] != val:
            raise ValueError('expected %r got %r (at %d in %r)' % (
                val, tok, self.i, ' '.join(t[1] for t in self.t[max(0, self.i - 8):self.i + 4])))
        return tok

    def eof(self):
        return self.i >= len(self.t)


PARAM_ATTRS = {
    'noundef', 'nonnull', 'signext', 'zeroext', 'nocapture', 'readonly',
    'writeonly', 'noalias', 'returned', 'inreg', 'immarg', 'readnone', 'nofree',
    'nest', 'swiftself', 'swifterror',
}


def parse_type(p):
    kind, val = p.next()
    if kind == 'word':
        if re.fullmatch(r'i[0-9]+', val):
            ty = IntTy(int(val[1:]))
        elif val == 'void':
            ty = VoidTy()
        elif val == 'opaque':
            ty = OpaqueTy()
        elif val in ('float', 'double', 'metadata', 'label', 'x86_fp80', 'half', 'token', 'ptr'):
            ty = OtherTy(val)
        else:
            raise ValueError('unknown type word %r' % val)
    elif kind == 'lname':
        ty = NamedTy(_unq(val))
    elif val == '[':
        n = int(p.next()[1])
        p.expect('x')
        elem = parse_type(p)
        p.expect(']')
        ty = ArrTy(n, elem)
    elif val == '{' or val == '<{':
        packed = val == '<{'
        elems = []
        close = '}>' if packed else '}'
        if not p.accept(close):
            while True:
                elems.append(parse_type(p))
                if p.accept(close):
                    break
                p.expect(',')
        ty = StructTy(elems, packed)
    elif val == '<':
        # vector type: unsupported but parse
        n = int(p.next()[1])
        p.expect('x')
        elem = parse_type(p)
        p.expect('>')
        ty = OtherTy('vec')
    else:
        raise ValueError('bad type token %r' % (val,))
    # suffixes
    while True:
        if p.accept('*'):
            ty = PtrTy(ty)
        elif p.peek()[1] == '(':
            # function type
            p.next()
            params = []
            vararg = False
            if not p.accept(')'):
                while True:
                    if p.peek()[0] == 'dots':
                        p.next()
                        vararg = True
                    else:
                        params.append(parse_type(p))
                    if p.accept(')'):
                        break
                    p.expect(',')
            ty = FnTy(ty, params, vararg)
        elif p.peek()[1] == 'addrspace':
            p.next()
            p.expect('(')
            p.next()
            p.expect(')')
        else:
            break
    return ty


# ----------------------------------------------------------------------------
# Values (operands and constants)
# ----------------------------------------------------------------------------


class Val:
    pass


class Reg(Val):
    def __init__(self, name):
        self.name = name

    def __repr__(self):
        return '%' + self.name


class ConstInt(Val):
    def __init__(self, v):
        self.v = v

    def __repr__(self):
        return str(self.v)


class GlobalRef(Val):
    def __init__(self, name):
        self.name = name

    def __repr__(self):
        return '@' + self.name


class Null(Val):
    def __repr__(self):
        return 'null'


class Undef(Val):
    def __repr__(self):
        return 'undef'


class Zero(Val):
    def __repr__(self):
        return 'zeroinitializer'


class ConstAgg(Val):
    """struct / array constant: list of (type, Val)."""

    def __init__(self, elems, kind):
        self.elems = elems
        self.kind = kind

    def __repr__(self):
        return 'agg(%d)' % len(self.elems)


class ConstStr(Val):
    def __init__(self, data):
        self.data = data  # bytes


class ConstExpr(Val):
    def __init__(self, op, args, ty=None, srcty=None, flags=()):
        self.op = op
        self.args = args  # list of (type, Val)
        self.ty = ty      # target type for casts
        self.srcty = srcty  # source element type for gep
        self.flags = flags

    def __repr__(self):
        return '%s(%r)' % (self.op, self.args)


class OtherVal(Val):
    def __init__(self, text):
        self.text = text


def _decode_cstr(tok):
    body = tok[2:-1]
    out = bytearray()
    i = 0
    while i < len(body):
        ch = body[i]
        if ch == '\\':
            if body[i + 1] == '\\':
                out.append(0x5c)
                i += 2
            else:
                out.append(int(body[i + 1:i + 3], 16))
                i += 3
        else:
            out.append(ord(ch))
            i += 1
    return bytes(out)


CAST_OPS = ('bitcast', 'ptrtoint', 'inttoptr', 'trunc', 'zext', 'sext', 'addrspacecast')
BIN_OPS = ('add', 'sub', 'mul', 'sdiv', 'udiv', 'srem', 'urem', 'and', 'or', 'xor', 'shl', 'lshr', 'ashr')


def parse_value(p, ty=None):
    """Parse an untyped value (the type was parsed by the caller)."""
    kind, val = p.next()
    if kind == 'lname':
        return Reg(_unq(val))
    if kind == 'gname':
        return GlobalRef(_unq(val))
    if kind == 'num':
        if val.startswith('0x') or '.' in val:
            return OtherVal(val)
        return ConstInt(int(val))
    if kind == 'str':
        return ConstStr(_decode_cstr(val))
    if kind == 'meta':
        # metadata operand, consume a balanced (...) if it follows
        if p.peek()[1] == '(':
            depth = 0
            while True:
                t = p.next()[1]
                if t == '(':
                    depth += 1
                elif t == ')':
                    depth -= 1
                    if depth == 0:
                        break
        return OtherVal(val)
    if kind == 'word':
        if val == 'null':
            return Null()
        if val in ('undef', 'poison'):
            return Undef()
        if val == 'zeroinitializer':
            return Zero()
        if val == 'true':
            return ConstInt(1)
        if val == 'false':
            return ConstInt(0)
        if val == 'getelementptr':
            flags = []
            while p.peek()[1] in ('inbounds',):
                flags.append(p.next()[1])
            p.expect('(')
            srcty = parse_type(p)
            p.expect(',')
            args = []
            while True:
                if p.peek()[1] == 'inrange':
                    p.next()
                t = parse_type(p)
                v = parse_value(p, t)
                args.append((t, v))
                if p.accept(')'):
                    break
                p.expect(',')
            return ConstExpr('getelementptr', args, srcty=srcty, flags=tuple(flags))
        if val in CAST_OPS:
            p.expect('(')
            t = parse_type(p)
            v = parse_value(p, t)
            p.expect('to')
            tt = parse_type(p)
            p.expect(')')
            return ConstExpr(val, [(t, v)], ty=tt)
        if val in BIN_OPS:
            flags = []
            while p.peek()[1] in ('nsw', 'nuw', 'exact'):
                flags.append(p.next()[1])
            p.expect('(')
            t1 = parse_type(p)
            v1 = parse_value(p, t1)
            p.expect(',')
            t2 = parse_type(p)
            v2 = parse_value(p, t2)
            p.expect(')')
            return ConstExpr(val, [(t1, v1), (t2, v2)], flags=tuple(flags))
        if val == 'blockaddress' or val == 'dso_local_equivalent':
            raise ValueError('unsupported constant ' + val)
        raise ValueError('unknown value word %r' % val)
    if val in ('{', '<{', '['):
        close = {'{': '}', '<{': '}>', '[': ']'}[val]
        elems = []
        if not p.accept(close):
            while True:
                t = parse_type(p)
                v = parse_value(p, t)
                elems.append((t, v))
                if p.accept(close):
                    break
                p.expect(',')
        return ConstAgg(elems, val)
    if val == '<':
        raise ValueError('vector constant unsupported')
    raise ValueError('bad value token %r' % (val,))


def parse_typed(p):
    t = parse_type(p)
    while p.peek()[0] == 'word' and (p.peek()[1] in PARAM_ATTRS):
        p.next()
    # align N / dereferenceable(N) attrs
    while True:
        w = p.peek()[1]
        if w == 'align':
            p.next()
            p.next()
        elif w in ('dereferenceable', 'dereferenceable_or_null', 'byval', 'sret', 'elementtype', 'byref', 'preallocated', 'inalloca'):
            p.next()
            p.expect('(')
            depth = 1
            while depth:
                tok = p.next()[1]
                if tok == '(':
                    depth += 1
                elif tok == ')':
                    depth -= 1
        elif p.peek()[0] == 'word' and w in PARAM_ATTRS:
            p.next()
        else:
            break
    v = parse_value(p, t)
    return t, v


# ----------------------------------------------------------------------------
# Instructions, blocks, functions, module
# ----------------------------------------------------------------------------


class Instr:
    __slots__ = ('op', 'dest', 'ty', 'args', 'flags', 'extra', 'line', 'text', 'dbg')

    def __init__(self, op, dest=None, ty=None, args=None, flags=(), extra=None, text=''):
        self.op = op
        self.dest = dest
        self.ty = ty
        self.args = args or []
        self.flags = flags
        self.extra = extra
        self.text = text
        self.dbg = None
        self.line = None

    def __repr__(self):
        return self.text


class Block:
    def __init__(self, name):
        self.name = name
        self.instrs = []
        self.preds = []


class Function:
    def __init__(self, name, ret, params, attrs_text):
        self.name = name
        self.ret = ret
        self.params = params  # list of (type, name, attrs set)
        self.blocks = OrderedDict()
        self.unsupported = None
        self.attrs_text = attrs_text
        self.dbg_sp = None
        self.demangled = None
        self.src_file = None
        self.src_line = None

    def entry(self):
        return next(iter(self.blocks.values()))

    def successors(self, b):
        t = b.instrs[-1]
        if t.op == 'br':
            return [t.extra[0]] if len(t.extra) == 1 else [t.extra[0], t.extra[1]]
        if t.op == 'switch':
            return [t.extra['default']] + [l for _, l in t.extra['cases']]
        return []


class GlobalVar:
    def __init__(self, name, ty, init, constant, external):
        self.name = name
        self.ty = ty
        self.init = init
        self.constant = constant
        self.external = external
        self.demangled = None


class Module:
    def __init__(self):
        self.types = {}      # name -> Ty
        self.globals = {}    # name -> GlobalVar
        self.functions = {}  # mangled name -> Function (defined)
        self.declares = {}   # mangled name -> (ret, params)
        self.meta = {}       # '!123' -> raw text
        self.ptr_bits = 64
        self.triple = ''
        self.datalayout = ''
        self.by_demangled = {}
        self._layout_cache = {}
        self._fields = None

    # ---- data layout -------------------------------------------------------
    def resolve(self, ty):
        while isinstance(ty, NamedTy):
            ty = self.types[ty.name]
        return ty

    def _int_align(self, bits):
        if self.ptr_bits == 16:  # avr: everything byte aligned
            return 1
        if bits <= 8:
            return 1
        if bits <= 16:
            return 2
        if bits <= 32:
            return 4
        return 8

    def align_of(self, ty):
        ty = self.resolve(ty)
        if isinstance(ty, IntTy):
            return self._int_align(ty.bits)
        if isinstance(ty, PtrTy):
            return 1 if self.ptr_bits == 16 else self.ptr_bits // 8
        if isinstance(ty, ArrTy):
            return self.align_of(ty.elem)
        if isinstance(ty, StructTy):
            if ty.packed or not ty.elems:
                return 1
            return max(self.align_of(e) for e in ty.elems)
        if isinstance(ty, OtherTy):
            return {'float': 4, 'double': 8}.get(ty.name, 8) if self.ptr_bits != 16 else 1
        raise ValueError('align_of %r' % (ty,))

    def size_of(self, ty):
        """Alloc size in bytes."""
        key = repr(ty)
        if key in self._layout_cache:
            return self._layout_cache[key]
        r = self._size_of(ty)
        self._layout_cache[key] = r
        return r

    def _size_of(self, ty):
        ty = self.resolve(ty)
        if isinstance(ty, IntTy):
            store = (ty.bits + 7) // 8
            a = self._int_align(ty.bits)
            return (store + a - 1) // a * a
        if isinstance(ty, PtrTy):
            return self.ptr_bits // 8
        if isinstance(ty, ArrTy):
            return ty.n * self.size_of(ty.elem)
        if isinstance(ty, StructTy):
            off = 0
            for e in ty.elems:
                if not ty.packed:
                    a = self.align_of(e)
                    off = (off + a - 1) // a * a
                off += self.size_of(e)
            if not ty.packed and ty.elems:
                a = self.align_of(ty)
                off = (off + a - 1) // a * a
            return off
        if isinstance(ty, OtherTy):
            return {'float': 4, 'double': 8, 'x86_fp80': 16}.get(ty.name, 8)
        if isinstance(ty, FnTy):
            return 1
        raise ValueError('size_of %r' % (ty,))

    def store_size(self, ty):
        ty = self.resolve(ty)
        if isinstance(ty, IntTy):
            return (ty.bits + 7) // 8
        return self.size_of(ty)

    def elem_offset(self, sty, idx):
        sty = self.resolve(sty)
        off = 0
        for i, e in enumerate(sty.elems):
            if not sty.packed:
                a = self.align_of(e)
                off = (off + a - 1) // a * a
            if i == idx:
                return off
            off += self.size_of(e)
        raise IndexError(idx)

    # ---- debug-info: class member offsets ------------------------------------
    def fields(self):
        """{class qualified name: {member name: (byte offset, byte size)}}, with
        members of base classes merged in at their inheritance offset."""
        if self._fields is not None:
            return self._fields
        comp = {}     # id -> dict(name=, identifier=, scope=)
        members = {}  # composite id -> list of (name, offset_bits, size_bits, basetype, tag)
        basetype_of = {}
        for mid, text in self.meta.items():
            if 'DICompositeType(' in text:
                m = re.search(r'name: "([^"]*)"', text)
                ident = re.search(r'identifier: "([^"]*)"', text)
                sc = re.search(r'scope: (![0-9]+)', text)
                comp[mid] = dict(name=m.group(1) if m else None,
                                 identifier=ident.group(1) if ident else None,
                                 scope=sc.group(1) if sc else None)
            elif 'DIDerivedType(' in text:
                tag = re.search(r'tag: (DW_TAG_\w+)', text).group(1)
                bt = re.search(r'baseType: (![0-9]+)', text)
                basetype_of[mid] = (tag, bt.group(1) if bt else None)
                if tag in ('DW_TAG_member', 'DW_TAG_inheritance') and 'DIFlagStaticMember' not in text:
                    sc = re.search(r'scope: (![0-9]+)', text)
                    nm = re.search(r'name: "([^"]*)"', text)
                    off = re.search(r'offset: ([0-9]+)', text)
                    sz = re.search(r'size: ([0-9]+)', text)
                    if sc:
                        members.setdefault(sc.group(1), []).append((
                            nm.group(1) if nm else None,
                            int(off.group(1)) if off else 0,
                            int(sz.group(1)) if sz else 0,
                            bt.group(1) if bt else None, tag))
        idents = [c['identifier'] for c in comp.values() if c['identifier']]
        dem = demangle(['_ZTS' + i[4:] if i.startswith('_ZTS') else i for i in idents])
        ident_name = {}
        for i, d in zip(idents, dem):
            d = d.replace('typeinfo name for ', '')
            ident_name[i] = d

        def strip_typedefs(tid):
            seen = 0
            while tid in basetype_of and basetype_of[tid][0] in (
                    'DW_TAG_typedef', 'DW_TAG_const_type', 'DW_TAG_volatile_type') and seen < 20:
                tid = basetype_of[tid][1]
                seen += 1
            return tid

        cache = {}

        def collect(cid, depth=0):
            if cid in cache:
                return cache[cid]
            out = {}
            for (nm, off, sz, bt, tag) in members.get(cid, []):
                if tag == 'DW_TAG_inheritance':
                    b = strip_typedefs(bt)
                    if b in comp and depth < 8:
                        for k, (o, s) in collect(b, depth + 1).items():
                            out.setdefault(k, (o + off // 8, s))
                else:
                    if nm:
                        out[nm] = (off // 8, sz // 8)
                    # anonymous union/struct members: merge
                    b = strip_typedefs(bt) if bt else None
                    if b in comp and (nm is None or comp[b]['name'] is None) and depth < 8:
                        for k, (o, s) in collect(b, depth + 1).items():
                            out.setdefault(k, (o + off // 8, s))
                    elif b in comp and nm and depth < 8:
                        # nested named member of (possibly anonymous) composite: dotted access
                        for k, (o, s) in collect(b, depth + 1).items():
                            out.setdefault(nm + '.' + k, (o + off // 8, s))
            cache[cid] = out
            return out

        def qual(cid, depth=0):
            c = comp.get(cid)
            if c is not None:
                nm, sc = c['name'], c['scope']
            else:
                t = self.meta.get(cid, '')
                if 'DINamespace(' not in t:
                    return None
                m = re.search(r'name: "([^"]*)"', t)
                nm = m.group(1) if m else '(anonymous namespace)'
                m = re.search(r'scope: (![0-9]+)', t)
                sc = m.group(1) if m else None
            if nm is None:
                return None
            if sc and depth < 10:
                q = qual(sc, depth + 1)
                if q:
                    return q + '::' + nm
            return nm

        res = {}
        for cid, c in comp.items():
            f = collect(cid)
            if not f:
                continue
            if c['identifier'] and c['identifier'] in ident_name:
                res[ident_name[c['identifier']]] = f
            else:
                q = qual(cid)
                if q:
                    res.setdefault(q, f)
        self._fields = res
        return res

    def find_class(self, name):
        f = self.fields()
        if name in f:
            return name
        cands = [k for k in f if k.startswith(name + '<')]
        if len(cands) == 1:
            return cands[0]
        raise KeyError('class %r: candidates %r' % (name, cands))

    def field(self, cls, name):
        return self.fields()[self.find_class(cls)][name]


def demangle(names):
    if not names:
        return []
    out = subprocess.run(['c++filt'], input='\n'.join(names) + '\n', capture_output=True, text=True, check=True).stdout
    res = out.split('\n')[:len(names)]
    return res


_DEFINE_RE = re.compile(r'^define\b')
_LABEL_RE = re.compile(r'^([-A-Za-z0-9_.$]+|"[^"]*"):')
_DBG_RE = re.compile(r', !dbg (![0-9]+)')


def _strip_trailing_meta(line):
    # remove ", !dbg !12", ", !tbaa !3", ", !srcloc" etc. at end of an instruction
    dbg = None
    m = _DBG_RE.search(line)
    if m:
        dbg = m.group(1)
    line = re.sub(r'(, ![A-Za-z_.]+ ![0-9]+)+\s*$', '', line)
    return line, dbg


def parse_instr(line):
    text = line.strip()
    body, dbg = _strip_trailing_meta(text)
    # strip trailing comments
    if ' ; ' in body:
        body = body.split(' ; ')[0]
    p = P(tokenize(body))
    dest = None
    if p.peek()[0] == 'lname' and p.peek(1)[1] == '=':
        dest = _unq(p.next()[1])
        p.next()
    op = p.next()[1]
    ins = Instr(op, dest=dest, text=text)
    ins.dbg = dbg
    if op in ('tail', 'musttail', 'notail'):
        op = p.next()[1]
        ins.op = op
    if op == 'alloca':
        ins.ty = parse_type(p)
        n = None
        if p.accept(','):
            if p.peek()[1] == 'align':
                pass
            else:
                t, v = parse_typed(p)
                n = v
        ins.extra = n
    elif op == 'load':
        p.accept('volatile')
        ins.ty = parse_type(p)
        p.expect(',')
        ins.args = [parse_typed(p)]
    elif op == 'store':
        p.accept('volatile')
        a = parse_typed(p)
        p.expect(',')
        b = parse_typed(p)
        ins.args = [a, b]
    elif op == 'getelementptr':
        flags = []
        if p.accept('inbounds'):
            flags.append('inbounds')
        ins.flags = tuple(flags)
        ins.ty = parse_type(p)  # source element type
        p.expect(',')
        args = []
        while True:
            args.append(parse_typed(p))
            if not p.accept(','):
                break
            if p.peek()[1] == 'align':
                break
        ins.args = args
    elif op in CAST_OPS:
        a = parse_typed(p)
        p.expect('to')
        ins.ty = parse_type(p)
        ins.args = [a]
    elif op in BIN_OPS:
        flags = []
        while p.peek()[1] in ('nsw', 'nuw', 'exact'):
            flags.append(p.next()[1])
        ins.flags = tuple(flags)
        ins.ty = parse_type(p)
        v1 = parse_value(p)
        p.expect(',')
        v2 = parse_value(p)
        ins.args = [(ins.ty, v1), (ins.ty, v2)]
    elif op == 'icmp':
        pred = p.next()[1]
        ins.extra = pred
        ins.ty = parse_type(p)
        v1 = parse_value(p)
        p.expect(',')
        v2 = parse_value(p)
        ins.args = [(ins.ty, v1), (ins.ty, v2)]
    elif op == 'select':
        c = parse_typed(p)
        p.expect(',')
        a = parse_typed(p)
        p.expect(',')
        b = parse_typed(p)
        ins.args = [c, a, b]
        ins.ty = a[0]
    elif op == 'phi':
        ins.ty = parse_type(p)
        inc = []
        while True:
            p.expect('[')
            v = parse_value(p)
            p.expect(',')
            lbl = _unq(p.next()[1])
            p.expect(']')
            inc.append((v, lbl))
            if not p.accept(','):
                break
        ins.extra = inc
    elif op == 'br':
        if p.peek()[1] == 'label':
            p.next()
            ins.extra = [_unq(p.next()[1])]
        else:
            c = parse_typed(p)
            p.expect(',')
            p.expect('label')
            l1 = _unq(p.next()[1])
            p.expect(',')
            p.expect('label')
            l2 = _unq(p.next()[1])
            ins.args = [c]
            ins.extra = [l1, l2]
    elif op == 'switch':
        c = parse_typed(p)
        p.expect(',')
        p.expect('label')
        default = _unq(p.next()[1])
        p.expect('[')
        cases = []
        while not p.accept(']'):
            t, v = parse_typed(p)
            p.expect(',')
            p.expect('label')
            cases.append((v.v, _unq(p.next()[1])))
        ins.args = [c]
        ins.extra = {'default': default, 'cases': cases}
    elif op == 'ret':
        if p.peek()[1] == 'void':
            p.next()
            ins.args = []
        else:
            ins.args = [parse_typed(p)]
    elif op == 'unreachable':
        pass
    elif op == 'extractvalue':
        a = parse_typed(p)
        idx = []
        while p.accept(','):
            idx.append(int(p.next()[1]))
        ins.args = [a]
        ins.extra = idx
    elif op == 'insertvalue':
        a = parse_typed(p)
        p.expect(',')
        b = parse_typed(p)
        idx = []
        while p.accept(','):
            idx.append(int(p.next()[1]))
        ins.args = [a, b]
        ins.extra = idx
        ins.ty = a[0]
    elif op in ('call', 'invoke'):
        # skip cconv / ret attrs
        while p.peek()[0] == 'word' and p.peek()[1] in (
                'fastcc', 'ccc', 'coldcc', 'noundef', 'zeroext', 'signext', 'nonnull', 'noalias', 'inreg',
                'nnan', 'ninf', 'nsz', 'arcp', 'contract', 'afn', 'reassoc', 'fast'):
            p.next()
        while p.peek()[1] in ('align', 'dereferenceable', 'dereferenceable_or_null', 'addrspace'):
            w = p.next()[1]
            if w == 'align':
                p.next()
            else:
                p.expect('(')
                p.next()
                p.expect(')')
            while p.peek()[0] == 'word' and p.peek()[1] in ('noundef', 'zeroext', 'signext', 'nonnull', 'noalias'):
                p.next()
        ins.ty = parse_type(p)   # return type, or full fn type (pointer) for varargs
        callee = parse_value(p)
        p.expect('(')
        args = []
        if not p.accept(')'):
            while True:
                args.append(parse_typed(p))
                if p.accept(')'):
                    break
                p.expect(',')
        ins.args = args
        ins.extra = callee
        if isinstance(ins.ty, PtrTy) and isinstance(ins.ty.pointee, FnTy):
            ins.ty = ins.ty.pointee.ret
        elif isinstance(ins.ty, FnTy):
            ins.ty = ins.ty.ret
        if op == 'invoke':
            raise ValueError('invoke unsupported')
    else:
        raise ValueError('unsupported instruction %r' % op)
    return ins


def parse_module(text):
    mod = Module()
    lines = text.split('\n')
    i = 0
    n = len(lines)
    while i < n:
        line = lines[i]
        i += 1
        if not line or line.startswith(';'):
            continue
        if line.startswith('target datalayout'):
            mod.datalayout = line
            m = re.search(r'[-"]p:([0-9]+):', line)
            if m:
                mod.ptr_bits = int(m.group(1))
            continue
        if line.startswith('target triple'):
            mod.triple = line
            if 'avr' in line:
                mod.ptr_bits = 16
            continue
        if line.startswith('%') and ' = type ' in line:
            p = P(tokenize(line))
            name = _unq(p.next()[1])
            p.expect('=')
            p.expect('type')
            mod.types[name] = parse_type(p)
            continue
        if line.startswith('@'):
            _parse_global(mod, line)
            continue
        if line.startswith('!'):
            m = re.match(r'^(![0-9A-Za-z_.]+) = (.*)$', line)
            if m:
                mod.meta[m.group(1)] = m.group(2)
            continue
        if line.startswith('declare'):
            m = re.search(r'@("[^"]*"|[-A-Za-z0-9_.$]+)\(', line)
            if m:
                mod.declares[m.group(1).strip('"')] = line
            continue
        if _DEFINE_RE.match(line):
            fn, i = _parse_function(mod, lines, i - 1)
            mod.functions[fn.name] = fn
            continue
    # demangle
    names = list(mod.functions) + list(mod.declares) + list(mod.globals)
    dem = demangle(names)
    dm = dict(zip(names, dem))
    for k, f in mod.functions.items():
        f.demangled = dm[k]
        mod.by_demangled.setdefault(dm[k], []).append(k)
    for k, g in mod.globals.items():
        g.demangled = dm[k]
    mod.declare_demangled = {k: dm[k] for k in mod.declares}
    # source lines
    for f in mod.functions.values():
        if f.dbg_sp and f.dbg_sp in mod.meta:
            t = mod.meta[f.dbg_sp]
            m = re.search(r'\bline: ([0-9]+)', t)
            if m:
                f.src_line = int(m.group(1))
            m = re.search(r'\bfile: (![0-9]+)', t)
            if m and m.group(1) in mod.meta:
                fm = re.search(r'filename: "([^"]*)"', mod.meta[m.group(1)])
                if fm:
                    f.src_file = fm.group(1)
        for b in f.blocks.values():
            for ins in b.instrs:
                if ins.dbg and ins.dbg in mod.meta:
                    m = re.search(r'\bline: ([0-9]+)', mod.meta[ins.dbg])
                    if m:
                        ins.line = int(m.group(1))
    return mod


_GLOBAL_KW = {
    'private', 'internal', 'available_externally', 'linkonce', 'weak', 'common', 'appending', 'extern_weak',
    'linkonce_odr', 'weak_odr', 'external', 'dso_local', 'dso_preemptable', 'default', 'hidden', 'protected',
    'dllimport', 'dllexport', 'thread_local', 'unnamed_addr', 'local_unnamed_addr', 'externally_initialized',
}


def _parse_global(mod, line):
    line2, _ = _strip_trailing_meta(line)
    # drop ", align N", ", comdat", ", section ..." tails: parse from tokens instead
    try:
        p = P(tokenize(line2))
    except ValueError:
        return
    name = _unq(p.next()[1])
    p.expect('=')
    external = False
    constant = False
    while True:
        kind, val = p.peek()
        if kind == 'word' and val in _GLOBAL_KW:
            if val == 'external' or val == 'extern_weak':
                external = True
            p.next()
        elif kind == 'word' and val == 'addrspace':
            p.next()
            p.expect('(')
            p.next()
            p.expect(')')
        else:
            break
    kind, val = p.next()
    if val == 'alias' or val == 'ifunc':
        return
    if val == 'constant':
        constant = True
    elif val != 'global':
        return
    try:
        ty = parse_type(p)
        init = None
        if not external and not p.eof() and p.peek()[1] != ',':
            init = parse_value(p, ty)
    except ValueError as e:
        mod.globals[name] = GlobalVar(name, None, None, constant, True)
        return
    mod.globals[name] = GlobalVar(name, ty, init, constant, external or init is None)


def _parse_function(mod, lines, i):
    header = lines[i]
    m = re.search(r'@("[^"]*"|[-A-Za-z0-9_.$]+)\(', header)
    name = m.group(1).strip('"')
    pre = header[:m.start()]
    # return type: tokens after linkage words
    toks = tokenize(pre)
    p = P(toks)
    p.expect('define')
    while True:
        kind, val = p.peek()
        if kind == 'word' and (val in _GLOBAL_KW or val in PARAM_ATTRS or val in ('fastcc', 'ccc', 'coldcc')):
            p.next()
        elif val in ('align', ):
            p.next()
            p.next()
        elif val in ('dereferenceable', 'dereferenceable_or_null', 'addrspace'):
            p.next()
            p.expect('(')
            p.next()
            p.expect(')')
        else:
            break
    ret = parse_type(p)
    # params
    depth = 0
    j = m.end() - 1
    start = j
    while True:
        ch = header[j]
        if ch == '(':
            depth += 1
        elif ch == ')':
            depth -= 1
            if depth == 0:
                break
        j += 1
    ptext = header[start + 1:j]
    rest = header[j + 1:]
    params = []
    if ptext.strip():
        pp = P(tokenize(ptext))
        while not pp.eof():
            if pp.peek()[0] == 'dots':
                pp.next()
            else:
                t = parse_type(pp)
                attrs = set()
                pname = None
                while not pp.eof() and pp.peek()[1] != ',':
                    kind, val = pp.next()
                    if kind == 'lname':
                        pname = _unq(val)
                    elif kind == 'word':
                        attrs.add(val)
                        if val in ('dereferenceable', 'dereferenceable_or_null', 'byval', 'sret', 'align',
                                   'elementtype', 'byref'):
                            if pp.peek()[1] == '(':
                                d = 0
                                while True:
                                    tk = pp.next()[1]
                                    if tk == '(':
                                        d += 1
                                    elif tk == ')':
                                        d -= 1
                                        if d == 0:
                                            break
                                    elif val == 'dereferenceable' and tk.isdigit():
                                        attrs.add(('deref', int(tk)))
                            elif val == 'align':
                                pp.next()
                params.append((t, pname, attrs))
            if not pp.eof():
                pp.expect(',')
    fn = Function(name, ret, params, rest)
    dm = re.search(r'!dbg (![0-9]+)', rest)
    if dm:
        fn.dbg_sp = dm.group(1)
    i += 1
    cur = None
    implicit = 0
    while True:
        line = lines[i]
        i += 1
        if line == '}':
            break
        if not line.strip() or line.lstrip().startswith(';'):
            continue
        lm = _LABEL_RE.match(line)
        if lm and not line.startswith(' '):
            cur = Block(lm.group(1).strip('"'))
            fn.blocks[cur.name] = cur
            continue
        if cur is None:
            # entry block without label gets the next implicit number == number of params w/o names
            cur = Block('entry' if not any(pn is None for _, pn, _ in params) else str(len(params)))
            fn.blocks[cur.name] = cur
        s = line.strip()
        if s.startswith('switch ') and s.endswith('['):
            while True:
                nxt = lines[i].strip()
                i += 1
                line = line + ' ' + nxt
                if nxt.startswith(']'):
                    break
            s = line.strip()
        if re.match(r'call (addrspace\(\d+\) )?void @llvm\.(dbg\.|lifetime)', s):
            continue
        if fn.unsupported:
            continue
        try:
            ins = parse_instr(line)
            cur.instrs.append(ins)
        except (ValueError, IndexError, KeyError) as e:
            fn.unsupported = '%s: %s' % (e, s[:160])
    if not fn.unsupported:
        for b in fn.blocks.values():
            for s in fn.successors(b):
                if s in fn.blocks:
                    fn.blocks[s].preds.append(b.name)
    return fn, i


def load_ll(path):
    with open(path) as f:
        return parse_module(f.read())


if __name__ == '__main__':
    import sys
    import time
    t0 = time.time()
    mod = load_ll(sys.argv[1])
    print('parsed in %.2fs: %d types, %d globals, %d functions' % (
        time.time() - t0, len(mod.types), len(mod.globals), len(mod.functions)))
    bad = [(f.demangled, f.unsupported) for f in mod.functions.values() if f.unsupported]
    print('unsupported: %d' % len(bad))
    for d, u in bad[:40]:
        print('  ', d, '::', u)
    flds = mod.fields()
    for cls in ('ace_time::LocalDate', 'ace_time::clock::SystemClockLoop', 'ace_time::TimeZone',
                'ace_time::extended::TransitionStorage<8>', 'ace_time::ExtendedZoneProcessor'):
        print(cls, flds.get(cls))
