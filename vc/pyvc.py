"""pyvc: verification-condition generation for the real Python functions of
/repo/tools (DESIGN.md 2.3).  The function is located by name in the file,
re-read on every run, parsed with `ast`, and symbolically executed path by
path into z3 terms over mathematical integers.

Subset: Assign / AugAssign / AnnAssign (names, tuple unpacking, subscripts of
tracked dict records), If, Return, Raise, Assert, Pass, Expr(logging.* / doc
strings), For over a symbolic string or range (invariant required), While
(invariant + variant required); integer + - * // % (positive constant or
provably positive divisors), unary -, comparisons and chains, and/or/not,
IfExp, tuples, module-level and local constant lists indexed symbolically,
calls to functions of the same module (executed in place) or with a supplied
model, f-strings (kept as templates), bool used as int.

Assumed semantics: int is the mathematical integers; // and % are floor
division / non-negative remainder for positive divisors (checked: a divisor
that is not a positive constant makes the function out of reach); left to
right evaluation; no operator overloading on the tracked values.
"""
import ast
import os
import z3


class PyOutOfReach(Exception):
    pass


class Template:
    """An f-string whose holes are integer terms: list of str / z3 Int pieces."""

    def __init__(self, parts):
        self.parts = parts

    def __repr__(self):
        return 'Template(%r)' % (self.parts,)


class SymStr:
    """A symbolic string: length n (Int) and code points codes: Int -> Int."""

    def __init__(self, name):
        self.n = z3.Int(name + '_len')
        self.codes = z3.Function(name + '_code', z3.IntSort(), z3.IntSort())


class SymItems:
    """An abstract finite sequence of dict items (key_i, value_i), i in [0, n): keys are denoted by their index."""

    def __init__(self, name):
        self.n = z3.Int(name + '_count')
        self.name = name


class KeyRef:
    """the key of item i of a SymItems"""

    def __init__(self, items, i):
        self.items = items
        self.i = i


class SymDict:
    """dict from integers to item indices, as an SMT array; ABSENT marks a missing key"""
    ABSENT = -1

    def __init__(self, arr=None, kind=None):
        self.arr = arr if arr is not None else z3.K(z3.IntSort(), z3.IntVal(-1))
        self.kind = kind     # 'int': keyed by integers; 'ref': keyed by item keys (strings), indexed by item number


class Record:
    """dict / object with symbolic fields, tracked by key."""

    def __init__(self, fields):
        self.fields = dict(fields)


class TupleRec(Record):
    """a NamedTuple value: attribute access like a Record, comparison lexicographic over `order` (the field order of the class)"""

    def __init__(self, fields, order):
        Record.__init__(self, fields)
        self.order = tuple(order)


class Lookup:
    """result of dict.get(k): the index of the stored key, or ABSENT"""

    def __init__(self, idx):
        self.idx = idx


class Path:
    def __init__(self, pc, outcome, value, env, obligations):
        self.pc = pc
        self.outcome = outcome   # 'return' | 'raise'
        self.value = value
        self.env = env
        self.obligations = obligations


class LoopInv:
    def __init__(self, invariant, variant=None):
        self.invariant = invariant   # f(env, k) -> list of (label, bool) ; k = loop index term for `for`
        self.variant = variant


def load_function(path, qualname):
    with open(path) as f:
        src = f.read()
    tree = ast.parse(src)
    parts = qualname.split('.')
    node = tree
    for p in parts:
        found = None
        for ch in ast.iter_child_nodes(node):
            if isinstance(ch, (ast.FunctionDef, ast.ClassDef)) and ch.name == p:
                found = ch
                break
        if found is None:
            raise KeyError('%s not found in %s' % (qualname, path))
        node = found
    return tree, node, src


def module_constants(tree):
    """module-level NAME = <int | list of ints | str> assignments"""
    out = {}
    for ch in tree.body:
        name = None
        if isinstance(ch, ast.Assign) and len(ch.targets) == 1 and isinstance(ch.targets[0], ast.Name):
            name, val = ch.targets[0].id, ch.value
        elif isinstance(ch, ast.AnnAssign) and isinstance(ch.target, ast.Name) and ch.value is not None:
            name, val = ch.target.id, ch.value
        if name is None:
            continue
        try:
            out[name] = ast.literal_eval(val)
        except Exception:
            # integer expression over earlier constants (e.g. MAX_YEAR = MAX_UNTIL_YEAR - 1)
            names = {n.id for n in ast.walk(val) if isinstance(n, ast.Name)}
            ok = all(isinstance(n, (ast.Expression, ast.BinOp, ast.UnaryOp, ast.Constant, ast.Name, ast.Load, ast.operator, ast.unaryop))
                     for n in ast.walk(val))
            if ok and names and all(k in out and isinstance(out[k], int) for k in names):
                try:
                    out[name] = eval(compile(ast.Expression(val), '<const>', 'eval'), {'__builtins__': {}}, dict(out))
                except Exception:
                    pass
    return out


def as_int(v):
    if isinstance(v, bool):
        return z3.IntVal(1 if v else 0)
    if isinstance(v, int):
        return z3.IntVal(v)
    if z3.is_bool(v):
        return z3.If(v, z3.IntVal(1), z3.IntVal(0))
    if z3.is_int(v):
        return v
    raise PyOutOfReach('not an integer: %r' % (v,))


def as_bool(v):
    if isinstance(v, Lookup):
        return v.idx != SymDict.ABSENT      # a stored key (a non-empty string) is truthy, None is falsy
    if isinstance(v, bool):
        return z3.BoolVal(v)
    if isinstance(v, int):
        return z3.BoolVal(v != 0)
    if z3.is_bool(v):
        return v
    if z3.is_int(v):
        return v != 0
    if isinstance(v, str):
        return z3.BoolVal(bool(v))
    if v is None:
        return z3.BoolVal(False)
    if isinstance(v, Record):
        return z3.BoolVal(True)          # an object without __bool__ / __len__ is truthy
    raise PyOutOfReach('truthiness of %r' % (v,))


def concrete(v):
    return isinstance(v, (int, str, bool, type(None), float)) and not z3.is_expr(v)


class PyExec:
    def __init__(self, path, models=None, loops=None, max_paths=2000, consts=None, method_models=None, attr_models=None):
        self.path = path
        self.method_models = method_models or {}   # attribute name -> f(ex, base, args, kw, pc) -> value (objects modelled as integers)
        self.attr_models = attr_models or {}       # attribute name -> f(ex, base) -> value
        with open(path) as f:
            self.src = f.read()
        self.tree = ast.parse(self.src)
        self.consts = module_constants(self.tree)
        if consts:
            self.consts.update(consts)
        self.models = models or {}     # callee name -> f(ex, args, pc) -> value  (may append obligations)
        self.loops = loops or {}       # (function name, loop ordinal) -> LoopInv
        self.max_paths = max_paths
        self.funcs = {}
        for ch in ast.walk(self.tree):
            if isinstance(ch, ast.FunctionDef):
                self.funcs.setdefault(ch.name, ch)
        self.obligations = []
        self.fresh_n = 0

    def fresh(self, name):
        self.fresh_n += 1
        return z3.Int('%s!%d' % (name, self.fresh_n))

    # ---- public -----------------------------------------------------------------------
    def run(self, qualname, args, pre=()):
        """args: dict name -> value. Returns list of Path."""
        node = self.tree
        for p in qualname.split('.'):
            node = next(ch for ch in ast.iter_child_nodes(node)
                        if isinstance(ch, (ast.FunctionDef, ast.ClassDef)) and ch.name == p)
        self.cur_fn = node.name
        paths = []
        self._loop_ord = {}
        self._exec_fn(node, dict(args), list(pre), paths, depth=0)
        return paths

    def _exec_fn(self, node, env, pc, out, depth):
        for st in self._exec_block(node.body, env, pc, node.name, depth):
            kind, env2, pc2, val = st
            if kind == 'fall':
                out.append(Path(pc2, 'return', None, env2, []))
            elif kind in ('return', 'raise'):
                out.append(Path(pc2, kind, val, env2, []))
            if len(out) > self.max_paths:
                raise PyOutOfReach('path budget exceeded in %s' % node.name)

    # a block yields states: ('fall'|'return'|'raise'|'break'|'continue', env, pc, value)
    def _exec_block(self, stmts, env, pc, fname, depth):
        states = [('fall', env, pc, None)]
        for s in stmts:
            nxt = []
            for (kind, e, p, v) in states:
                if kind != 'fall':
                    nxt.append((kind, e, p, v))
                    continue
                nxt.extend(self._exec_stmt(s, e, p, fname, depth))
            states = nxt
            if len(states) > self.max_paths:
                raise PyOutOfReach('path budget exceeded')
        return states

    def _feasible(self, pc, cond):
        c = z3.simplify(cond)
        if z3.is_true(c):
            return True
        if z3.is_false(c):
            return False
        s = z3.Solver()
        s.set('timeout', 2000)
        s.add(pc)
        s.add(c)
        return s.check() != z3.unsat

    def _exec_stmt(self, s, env, pc, fname, depth):
        if isinstance(s, ast.Expr):
            if isinstance(s.value, ast.Constant):
                return [('fall', env, pc, None)]          # docstring
            if isinstance(s.value, ast.Call):
                f = s.value.func
                if isinstance(f, ast.Attribute) and isinstance(f.value, ast.Name) and f.value.id == 'logging':
                    return [('fall', env, pc, None)]      # logging.* dropped (stated)
                out = []
                env = dict(env)
                self.cur_env = env               # a model of a mutating call (list.append) may set ghost entries here
                for (p2, v) in self._eval(s.value, env, pc, fname, depth):
                    out.append(('fall', env, p2, None))
                return out
            raise PyOutOfReach('expression statement %s' % ast.dump(s)[:80])
        if isinstance(s, ast.Pass):
            return [('fall', env, pc, None)]
        if isinstance(s, (ast.Assign, ast.AnnAssign)):
            targets = s.targets if isinstance(s, ast.Assign) else [s.target]
            if s.value is None:
                return [('fall', env, pc, None)]
            out = []
            for (p2, v) in self._eval(s.value, env, pc, fname, depth):
                e2 = dict(env)
                for t in targets:
                    self._assign(t, v, e2)
                out.append(('fall', e2, p2, None))
            return out
        if isinstance(s, ast.AugAssign):
            out = []
            cur = ast.BinOp(left=_load(s.target), op=s.op, right=s.value)
            ast.copy_location(cur, s)
            for (p2, v) in self._eval(cur, env, pc, fname, depth):
                e2 = dict(env)
                self._assign(s.target, v, e2)
                out.append(('fall', e2, p2, None))
            return out
        if isinstance(s, ast.Return):
            if s.value is None:
                return [('return', env, pc, None)]
            return [('return', env, p2, v) for (p2, v) in self._eval(s.value, env, pc, fname, depth)]
        if isinstance(s, ast.Raise):
            return [('raise', env, pc, ast.unparse(s.exc) if s.exc is not None else 'reraise')]
        if isinstance(s, ast.Assert):
            out = []
            for (p2, v) in self._eval(s.test, env, pc, fname, depth):
                c = as_bool(v)
                if self._feasible(p2, z3.Not(c)):
                    out.append(('raise', env, p2 + [z3.Not(c)], 'AssertionError'))
                if self._feasible(p2, c):
                    out.append(('fall', env, p2 + [c], None))
            return out
        if isinstance(s, ast.If):
            out = []
            for (p2, v) in self._eval(s.test, env, pc, fname, depth):
                c = z3.simplify(as_bool(v))
                if self._feasible(p2, c):
                    out.extend(self._exec_block(s.body, dict(env), p2 + ([c] if not z3.is_true(c) else []), fname, depth))
                nc = z3.simplify(z3.Not(c))
                if self._feasible(p2, nc):
                    out.extend(self._exec_block(s.orelse, dict(env), p2 + ([nc] if not z3.is_true(nc) else []), fname, depth))
            return out
        if isinstance(s, (ast.For, ast.While)):
            return self._exec_loop(s, env, pc, fname, depth)
        if isinstance(s, ast.Break):
            return [('break', env, pc, None)]
        if isinstance(s, ast.Continue):
            return [('continue', env, pc, None)]
        if isinstance(s, (ast.Import, ast.ImportFrom, ast.Global)):
            return [('fall', env, pc, None)]
        raise PyOutOfReach('statement %s' % type(s).__name__)

    def _assign(self, t, v, env):
        if isinstance(t, ast.Name):
            env[t.id] = v
        elif isinstance(t, (ast.Tuple, ast.List)):
            if not isinstance(v, tuple) or len(v) != len(t.elts):
                raise PyOutOfReach('tuple unpacking of %r' % (v,))
            for a, b in zip(t.elts, v):
                self._assign(a, b, env)
        elif isinstance(t, ast.Subscript) and isinstance(t.value, ast.Name) and isinstance(env.get(t.value.id), SymDict):
            d = env[t.value.id]
            keys = self._eval(t.slice, env, [], 'assign', 0)
            if len(keys) != 1:
                raise PyOutOfReach('dict store')
            key = keys[0][1]
            if isinstance(key, KeyRef):
                # keyed by a string key: index by item number; the stored value is abstracted to "present"
                env[t.value.id] = SymDict(z3.Store(d.arr, key.i, z3.IntVal(0) if not isinstance(v, KeyRef) else v.i), 'ref')
            elif isinstance(v, KeyRef):
                env[t.value.id] = SymDict(z3.Store(d.arr, as_int(key), v.i), 'int')
            else:
                raise PyOutOfReach('dict store of an untracked value')
        elif isinstance(t, ast.Attribute) and isinstance(t.value, ast.Name) and isinstance(env.get(t.value.id), Record):
            # attribute store on a record-modelled object: functional update of the binding (callers must not rely on aliases)
            r = env[t.value.id]
            r2 = TupleRec(r.fields, r.order) if isinstance(r, TupleRec) else Record(r.fields)
            r2.fields = dict(r.fields)
            r2.fields[t.attr] = v
            env[t.value.id] = r2
        elif isinstance(t, ast.Subscript) and isinstance(t.value, ast.Name) and isinstance(env.get(t.value.id), Record):
            key = ast.literal_eval(t.slice)
            r = env[t.value.id]
            r2 = Record(r.fields)
            r2.fields[key] = v
            env[t.value.id] = r2
        else:
            raise PyOutOfReach('assignment target %s' % ast.dump(t)[:60])

    # ---- loops ----------------------------------------------------------------------------
    def _exec_loop(self, s, env, pc, fname, depth):
        k = self._loop_ord.get(fname, 0)
        self._loop_ord[fname] = k + 1
        spec = self.loops.get((fname, k))
        if spec is None:
            raise PyOutOfReach('loop %d of %s has no invariant' % (k, fname))
        if isinstance(s, ast.For):
            its = self._eval(s.iter, env, pc, fname, depth)
            if len(its) != 1:
                raise PyOutOfReach('branching loop iterable')
            pc, it = its[0]
            if isinstance(it, SymItems):
                return self._for_items(s, it, env, pc, fname, depth, spec, k)
            if not isinstance(it, SymStr) or not isinstance(s.target, ast.Name):
                raise PyOutOfReach('for over %r' % (it,))
            # assigned names in the body
            mods = sorted({n.id for n in ast.walk(s) if isinstance(n, ast.Name) and isinstance(n.ctx, ast.Store)})
            # (1) invariant holds on entry with index 0
            for lbl, e in spec.invariant(env, z3.IntVal(0)):
                self.obligations.append(('%s#inv-init#%d#%s' % (fname, k, lbl), list(pc), e))
            # (2) preserved: havoc modified names, assume invariant at i, 0 <= i < n, run body with c = codes[i], check at i+1
            i = self.fresh('i')
            env2 = dict(env)
            for m in mods:
                if m in env2 and (z3.is_expr(env2[m]) or isinstance(env2[m], (int, bool))):
                    env2[m] = self.fresh(m)
            pc2 = list(pc) + [i >= 0, i < it.n] + [e for _, e in spec.invariant(env2, i)]
            env3 = dict(env2)
            env3[s.target.id] = it.codes(i)
            env3['__iter_str__' + s.target.id] = True
            for (kind, e4, p4, v4) in self._exec_block(s.body, env3, pc2, fname, depth):
                if kind in ('fall', 'continue'):
                    for lbl, e in spec.invariant(e4, i + 1):
                        self.obligations.append(('%s#inv-keep#%d#%s' % (fname, k, lbl), list(p4), e))
                else:
                    raise PyOutOfReach('%s inside a for loop body' % kind)
            # (3) after the loop: invariant at n
            env5 = dict(env)
            for m in mods:
                if m in env5 and (z3.is_expr(env5[m]) or isinstance(env5[m], (int, bool))):
                    env5[m] = self.fresh(m)
            pc5 = list(pc) + [it.n >= 0] + [e for _, e in spec.invariant(env5, it.n)]
            return [('fall', env5, pc5, None)]
        # while loop
        mods = sorted({n.id for n in ast.walk(s) if isinstance(n, ast.Name) and isinstance(n.ctx, ast.Store)})
        for lbl, e in spec.invariant(env, None):
            self.obligations.append(('%s#inv-init#%d#%s' % (fname, k, lbl), list(pc), e))
        env2 = dict(env)
        for m in mods:
            if m in env2 and (z3.is_expr(env2[m]) or isinstance(env2[m], (int, bool))):
                env2[m] = self.fresh(m)
        pc2 = list(pc) + [e for _, e in spec.invariant(env2, None)]
        out = []
        for (p3, tv) in self._eval(s.test, env2, pc2, fname, depth):
            c = as_bool(tv)
            v0 = spec.variant(env2) if spec.variant else None
            if self._feasible(p3, c):
                for (kind, e4, p4, v4) in self._exec_block(s.body, dict(env2), p3 + [c], fname, depth):
                    if kind in ('fall', 'continue'):
                        for lbl, e in spec.invariant(e4, None):
                            self.obligations.append(('%s#inv-keep#%d#%s' % (fname, k, lbl), list(p4), e))
                        if v0 is not None:
                            v1 = spec.variant(e4)
                            self.obligations.append(('%s#variant#%d' % (fname, k), list(p4), z3.And(v1 < v0, v0 >= 0)))
                    elif kind == 'break':
                        out.append(('fall', e4, p4, None))
                    else:
                        out.append((kind, e4, p4, v4))
            if self._feasible(p3, z3.Not(c)):
                out.append(('fall', env2, p3 + [z3.Not(c)], None))
        return out

    def _for_items(self, s, it, env, pc, fname, depth, spec, k):
        mods = sorted({n.id for n in ast.walk(s) if isinstance(n, ast.Name) and isinstance(n.ctx, ast.Store)} |
                      {n.value.id for n in ast.walk(s) if isinstance(n, ast.Subscript) and isinstance(n.ctx, ast.Store) and isinstance(n.value, ast.Name)})

        def havoc(e):
            e2 = dict(e)
            for m in mods:
                if m in e2 and isinstance(e2[m], SymDict):
                    self.fresh_n += 1
                    e2[m] = SymDict(z3.Array('%s!%d' % (m, self.fresh_n), z3.IntSort(), z3.IntSort()), e2[m].kind)
                elif m in e2 and (z3.is_expr(e2[m]) or isinstance(e2[m], (int, bool))):
                    e2[m] = self.fresh(m)
            return e2
        for lbl, e in spec.invariant(env, z3.IntVal(0)):
            self.obligations.append(('%s#inv-init#%d#%s' % (fname, k, lbl), list(pc), e))
        i = self.fresh('i')
        env2 = havoc(env)
        pc2 = list(pc) + [i >= 0, i < it.n] + [e for _, e in spec.invariant(env2, i)]
        env3 = dict(env2)
        if isinstance(s.target, ast.Tuple) and len(s.target.elts) == 2:
            env3[s.target.elts[0].id] = KeyRef(it, i)
            env3[s.target.elts[1].id] = None
        elif isinstance(s.target, ast.Name):
            env3[s.target.id] = KeyRef(it, i)
        else:
            raise PyOutOfReach('loop target')
        out = []
        for (kind, e4, p4, v4) in self._exec_block(s.body, env3, pc2, fname, depth):
            if kind in ('fall', 'continue'):
                for lbl, e in spec.invariant(e4, i + 1):
                    self.obligations.append(('%s#inv-keep#%d#%s' % (fname, k, lbl), list(p4), e))
            elif kind == 'raise':
                out.append((kind, e4, p4, v4))
            else:
                raise PyOutOfReach('%s inside a for loop body' % kind)
        env5 = havoc(env)
        pc5 = list(pc) + [it.n >= 0] + [e for _, e in spec.invariant(env5, it.n)]
        out.append(('fall', env5, pc5, None))
        return out

    # ---- expressions: return list of (pc, value) ------------------------------------------------
    def _eval(self, e, env, pc, fname, depth):
        if isinstance(e, ast.Constant):
            return [(pc, e.value)]
        if isinstance(e, ast.Name):
            if e.id in env:
                return [(pc, env[e.id])]
            if e.id in self.consts:
                return [(pc, self.consts[e.id])]
            if e.id in ('True', 'False', 'None'):
                return [(pc, {'True': True, 'False': False, 'None': None}[e.id])]
            raise PyOutOfReach('unknown name %s' % e.id)
        if isinstance(e, ast.Tuple):
            res = [(pc, [])]
            for el in e.elts:
                nxt = []
                for (p, acc) in res:
                    for (p2, v) in self._eval(el, env, p, fname, depth):
                        nxt.append((p2, acc + [v]))
                res = nxt
            return [(p, tuple(acc)) for p, acc in res]
        if isinstance(e, ast.List):
            res = self._eval(ast.Tuple(elts=e.elts, ctx=ast.Load()), env, pc, fname, depth)
            return [(p, list(v)) for p, v in res]
        if isinstance(e, ast.UnaryOp):
            out = []
            for (p, v) in self._eval(e.operand, env, pc, fname, depth):
                if isinstance(e.op, ast.USub):
                    out.append((p, -v if concrete(v) else -as_int(v)))
                elif isinstance(e.op, ast.Not):
                    out.append((p, (not v) if concrete(v) else z3.Not(as_bool(v))))
                elif isinstance(e.op, ast.UAdd):
                    out.append((p, v))
                else:
                    raise PyOutOfReach('unary op')
            return out
        if isinstance(e, ast.BinOp):
            out = []
            for (p, a) in self._eval(e.left, env, pc, fname, depth):
                for (p2, b) in self._eval(e.right, env, p, fname, depth):
                    out.append((p2, self._binop(e.op, a, b, p2)))
            return out
        if isinstance(e, ast.BoolOp):
            # short-circuit: value semantics on booleans only (and/or of conditions)
            res = None
            vals = []
            cur = [(pc, [])]
            for v in e.values:
                nxt = []
                for (p, acc) in cur:
                    for (p2, x) in self._eval(v, env, p, fname, depth):
                        nxt.append((p2, acc + [x]))
                cur = nxt
            out = []
            for (p, acc) in cur:
                if all(concrete(x) for x in acc):
                    r = acc[0]
                    for x in acc[1:]:
                        r = (r and x) if isinstance(e.op, ast.And) else (r or x)
                    out.append((p, r))
                else:
                    bs = [as_bool(x) for x in acc]
                    out.append((p, z3.And(bs) if isinstance(e.op, ast.And) else z3.Or(bs)))
            return out
        if isinstance(e, ast.Compare):
            out = []
            for (p, a) in self._eval(e.left, env, pc, fname, depth):
                cur = [(p, a, [])]
                for op, right in zip(e.ops, e.comparators):
                    nxt = []
                    for (p1, left, conds) in cur:
                        for (p2, b) in self._eval(right, env, p1, fname, depth):
                            nxt.append((p2, b, conds + [self._cmp(op, left, b)]))
                    cur = nxt
                for (p3, _, conds) in cur:
                    if all(isinstance(c, bool) for c in conds):
                        out.append((p3, all(conds)))
                    else:
                        out.append((p3, z3.And([as_bool(c) for c in conds]) if len(conds) > 1 else as_bool(conds[0])))
            return out
        if isinstance(e, ast.IfExp):
            out = []
            for (p, t) in self._eval(e.test, env, pc, fname, depth):
                c = z3.simplify(as_bool(t))
                if self._feasible(p, c):
                    out.extend(self._eval(e.body, env, p + ([c] if not z3.is_true(c) else []), fname, depth))
                if self._feasible(p, z3.Not(c)):
                    out.extend(self._eval(e.orelse, env, p + [z3.simplify(z3.Not(c))], fname, depth))
            return out
        if isinstance(e, ast.Subscript):
            out = []
            for (p, base) in self._eval(e.value, env, pc, fname, depth):
                if isinstance(base, TupleRec) and isinstance(e.slice, ast.Slice):
                    lo = ast.literal_eval(e.slice.lower) if e.slice.lower is not None else None
                    hi = ast.literal_eval(e.slice.upper) if e.slice.upper is not None else None
                    names = base.order[lo:hi]
                    out.append((p, TupleRec({k: base.fields[k] for k in names}, names)))
                    continue
                if isinstance(base, Record):
                    key = ast.literal_eval(e.slice)
                    if key not in base.fields:
                        raise PyOutOfReach('record has no field %r' % (key,))
                    out.append((p, base.fields[key]))
                    continue
                for (p2, idx) in self._eval(e.slice, env, p, fname, depth):
                    if isinstance(base, (list, tuple)) and concrete(idx):
                        out.append((p2, base[idx]))
                    elif isinstance(base, (list, tuple)) and all(isinstance(x, int) for x in base):
                        i = as_int(idx)
                        self.obligations.append(('%s#index#%d' % (fname, getattr(e, 'lineno', 0)), list(p2),
                                                 z3.And(i >= -len(base), i < len(base))))
                        r = z3.IntVal(base[-1])
                        for j in range(len(base) - 2, -1, -1):
                            r = z3.If(i == j, z3.IntVal(base[j]), r)
                        out.append((p2 + [i >= 0, i < len(base)], r))
                    else:
                        raise PyOutOfReach('subscript of %r' % (base,))
            return out
        if isinstance(e, ast.Dict) and not e.keys:
            return [(pc, SymDict())]
        if isinstance(e, ast.Dict) and all(isinstance(k, ast.Constant) and isinstance(k.value, str) for k in e.keys):
            # a dict literal with constant string keys: a record
            res = [(pc, {})]
            for k, v in zip(e.keys, e.values):
                nxt = []
                for (p, acc) in res:
                    for (p2, x) in self._eval(v, env, p, fname, depth):
                        d = dict(acc)
                        d[k.value] = x
                        nxt.append((p2, d))
                res = nxt
            return [(p, Record(d)) for (p, d) in res]
        if isinstance(e, ast.JoinedStr):
            res = [(pc, [])]
            for part in e.values:
                nxt = []
                for (p, acc) in res:
                    if isinstance(part, ast.Constant):
                        nxt.append((p, acc + [part.value]))
                    elif isinstance(part, ast.FormattedValue):
                        for (p2, v) in self._eval(part.value, env, p, fname, depth):
                            nxt.append((p2, acc + [v]))
                    else:
                        raise PyOutOfReach('f-string part')
                res = nxt
            out = []
            for (p, acc) in res:
                flat = []
                for x in acc:
                    if isinstance(x, Template):
                        flat.extend(x.parts)
                    else:
                        flat.append(x)
                if all(concrete(x) for x in flat):
                    out.append((p, ''.join(str(x) for x in flat)))
                else:
                    out.append((p, Template(flat)))
            return out
        if isinstance(e, ast.Call):
            return self._call(e, env, pc, fname, depth)
        if isinstance(e, ast.Attribute):
            # module constants like MIN_YEAR referenced as attribute are not used; attributes of records
            out = []
            for (p, base) in self._eval(e.value, env, pc, fname, depth):
                if isinstance(base, Record) and e.attr in base.fields:
                    out.append((p, base.fields[e.attr]))
                elif e.attr in self.attr_models:
                    out.append((p, self.attr_models[e.attr](self, base)))
                else:
                    raise PyOutOfReach('attribute %s' % e.attr)
            return out
        raise PyOutOfReach('expression %s' % type(e).__name__)

    def _binop(self, op, a, b, pc):
        if concrete(a) and concrete(b):
            if isinstance(op, ast.Add):
                return a + b
            if isinstance(op, ast.Sub):
                return a - b
            if isinstance(op, ast.Mult):
                return a * b
            if isinstance(op, ast.FloorDiv):
                return a // b
            if isinstance(op, ast.Mod):
                return a % b
            if isinstance(op, ast.Pow):
                return a ** b
            if isinstance(op, ast.LShift):
                return a << b
            raise PyOutOfReach('operator %s' % type(op).__name__)
        if isinstance(op, ast.Add) and (isinstance(a, (str, Template)) and isinstance(b, (str, Template))):
            pa = a.parts if isinstance(a, Template) else [a]
            pb = b.parts if isinstance(b, Template) else [b]
            return Template(list(pa) + list(pb))
        if isinstance(a, (str, Template)) or isinstance(b, (str, Template)):
            raise PyOutOfReach('string operator on symbolic value')
        x, y = as_int(a), as_int(b)
        if isinstance(op, ast.Add):
            return x + y
        if isinstance(op, ast.Sub):
            return x - y
        if isinstance(op, ast.Mult):
            return x * y
        if isinstance(op, ast.Div) and concrete(b) and b == 1:
            return x                     # true division by the unit (timedelta / timedelta(minutes=1) in the integer-minute model)
        if isinstance(op, (ast.FloorDiv, ast.Mod)):
            if not (concrete(b) and b > 0):
                raise PyOutOfReach('division by a non-constant or non-positive divisor')
            return x / y if isinstance(op, ast.FloorDiv) else x % y
        raise PyOutOfReach('operator %s' % type(op).__name__)

    def _cmp(self, op, a, b):
        if isinstance(op, (ast.Is, ast.IsNot)) and (a is None or b is None):
            other = b if a is None else a
            r = other is None
            return (not r) if isinstance(op, ast.IsNot) else r
        if isinstance(op, (ast.In, ast.NotIn)) and isinstance(b, SymDict):
            if isinstance(a, KeyRef):
                r = z3.BoolVal(False) if b.kind == 'int' else z3.Select(b.arr, a.i) != SymDict.ABSENT
            else:
                # an int is never equal to a string key
                r = z3.BoolVal(False) if b.kind == 'ref' else z3.Select(b.arr, as_int(a)) != SymDict.ABSENT
            return z3.Not(r) if isinstance(op, ast.NotIn) else r
        if isinstance(a, TupleRec) and isinstance(b, TupleRec) and a.order == b.order:
            xs = [a.fields[k] for k in a.order]
            ys = [b.fields[k] for k in b.order]
            eqs = [as_bool(self._cmp(ast.Eq(), x, y)) for x, y in zip(xs, ys)]
            if isinstance(op, (ast.Eq, ast.NotEq)):
                r = z3.And(eqs)
                return z3.Not(r) if isinstance(op, ast.NotEq) else r
            lt = z3.BoolVal(False)
            for k in range(len(xs) - 1, -1, -1):            # lexicographic <
                lt = z3.Or(as_bool(self._cmp(ast.Lt(), xs[k], ys[k])), z3.And(eqs[k], lt))
            alleq = z3.And(eqs)
            return {ast.Lt: lt, ast.LtE: z3.Or(lt, alleq), ast.Gt: z3.Not(z3.Or(lt, alleq)), ast.GtE: z3.Not(lt)}[type(op)]
        if isinstance(a, str) and len(a) == 1 and z3.is_expr(b):
            a = ord(a)            # a one-character string against a symbolic character (code point)
        if isinstance(b, str) and len(b) == 1 and z3.is_expr(a):
            b = ord(b)
        if isinstance(a, tuple) and isinstance(b, tuple) and isinstance(op, (ast.Eq, ast.NotEq)):
            cs = [self._cmp(ast.Eq(), x, y) for x, y in zip(a, b)]
            r = all(cs) if all(isinstance(c, bool) for c in cs) else z3.And([as_bool(c) for c in cs])
            if isinstance(op, ast.NotEq):
                r = (not r) if isinstance(r, bool) else z3.Not(r)
            return r
        if concrete(a) and concrete(b):
            return {ast.Eq: a == b, ast.NotEq: a != b, ast.Lt: None, ast.LtE: None, ast.Gt: None, ast.GtE: None}.get(type(op)) \
                if isinstance(op, (ast.Eq, ast.NotEq)) else \
                {ast.Lt: lambda: a < b, ast.LtE: lambda: a <= b, ast.Gt: lambda: a > b, ast.GtE: lambda: a >= b}[type(op)]()
        if isinstance(a, str) or isinstance(b, str) or a is None or b is None:
            raise PyOutOfReach('comparison of symbolic value with string/None')
        x, y = as_int(a), as_int(b)
        return {ast.Eq: lambda: x == y, ast.NotEq: lambda: x != y, ast.Lt: lambda: x < y, ast.LtE: lambda: x <= y,
                ast.Gt: lambda: x > y, ast.GtE: lambda: x >= y}[type(op)]()

    def _call(self, e, env, pc, fname, depth):
        # evaluate args
        res = [(pc, [])]
        for a in e.args:
            nxt = []
            for (p, acc) in res:
                for (p2, v) in self._eval(a, env, p, fname, depth):
                    nxt.append((p2, acc + [v]))
            res = nxt
        name = ast.unparse(e.func)
        out = []
        kw = {}
        for k in e.keywords:
            vs = self._eval(k.value, env, pc, fname, depth)
            if len(vs) != 1 or k.arg is None:
                raise PyOutOfReach('branching or ** keyword argument')
            kw[k.arg] = vs[0][1]
        if isinstance(e.func, ast.Attribute) and name not in self.models and e.func.attr in self.method_models \
                and not (isinstance(e.func.value, ast.Name) and e.func.value.id == 'self'):
            for (p, args) in res:
                for (p2, base) in self._eval(e.func.value, env, p, fname, depth):
                    r = self.method_models[e.func.attr](self, base, args, kw, p2)
                    if isinstance(r, list):
                        out.extend(r)
                    else:
                        out.append((p2, r))
            return out
        if isinstance(e.func, ast.Attribute) and isinstance(e.func.value, ast.Name):
            base = env.get(e.func.value.id)
            if isinstance(base, SymItems) and e.func.attr == 'items':
                return [(pc, base)]
            if isinstance(base, SymDict) and e.func.attr == 'get':
                return [(p, Lookup(z3.Select(base.arr, as_int(args[0])))) for (p, args) in res]
        for (p, args) in res:
            if name in self.models:
                r = self.models[name](self, args, p, **kw) if kw else self.models[name](self, args, p)
                if isinstance(r, list):
                    out.extend(r)        # list of (pc, value)
                else:
                    out.append((p, r))
                continue
            if name == 'ord' and len(args) == 1:
                out.append((p, args[0]))       # elements of a SymStr are already code points
                continue
            if name in ('int', 'bool') and len(args) == 1 and not isinstance(args[0], str):
                out.append((p, as_int(args[0]) if name == 'int' else as_bool(args[0])))
                continue
            if name in ('min', 'max') and len(args) >= 2 and all(not isinstance(a, (str, tuple, list)) for a in args):
                r = as_int(args[0])
                for a in args[1:]:
                    b = as_int(a)
                    r = z3.If(b < r, b, r) if name == 'min' else z3.If(b > r, b, r)
                out.append((p, r))
                continue
            if name == 'abs' and len(args) == 1:
                x = as_int(args[0])
                out.append((p, z3.If(x >= 0, x, -x)))
                continue
            if name == 'cast' and len(args) == 2:
                out.append((p, args[1]))
                continue
            short = name.split('.')[-1]
            cls_call = '.' in name and name.split('.')[0] in {n.name for n in ast.walk(self.tree) if isinstance(n, ast.ClassDef)}
            fn = self.funcs.get(short) if (name == short or name.startswith('self.') or cls_call) else None
            if fn is None:
                raise PyOutOfReach('call to %s without a model' % name)
            if depth > 8:
                raise PyOutOfReach('call depth')
            params = [a.arg for a in fn.args.args if a.arg != 'self']
            if len(params) != len(args):
                raise PyOutOfReach('arity of %s' % name)
            sub = []
            saved = dict(self._loop_ord)
            cenv = dict(zip(params, args))
            if name.startswith('self.') and 'self' in env:
                cenv['self'] = env['self']
            self._exec_fn(fn, cenv, p, sub, depth + 1)
            self._loop_ord = saved
            for path in sub:
                if path.outcome == 'return':
                    out.append((path.pc, path.value))
                else:
                    raise PyOutOfReach('callee %s may raise' % name)
        return out


def _load(t):
    t2 = ast.parse(ast.unparse(t), mode='eval').body
    return t2


def discharge(obligs, timeout=30):
    """obligs: list of (name, assumptions, goal). Returns list of (name, status, model)."""
    out = []
    for name, asm, goal in obligs:
        s = z3.Solver()
        s.set('timeout', timeout * 1000)
        s.add(asm)
        s.add(z3.Not(goal))
        r = s.check()
        m = None
        if r == z3.sat:
            mm = s.model()
            m = {d.name(): str(mm[d]) for d in mm.decls() if d.arity() == 0}
        out.append((name, str(r), m))
    return out
