"""Replay of solver counterexamples against the real code, natively.

A harness is generated that declares the function under contract by its mangled
name (asm label) with C types matching the IR signature, lays out the entry
state the model describes (integer arguments; one flat buffer per pointer
argument filled with the bytes the model assigns to it), calls the real
function compiled from /repo's current sources with ASan+UBSan, and prints the
result and the post-state of the buffers.  The contract's postcondition is then
re-instantiated on the concrete values and evaluated.
"""
import json
import os
import subprocess
import z3

from . import ir, build
from .symex import Ptr, FnPtr, MemView, Ctx, BV, simp, short_fn

SAN = ['-fsanitize=address,undefined', '-fno-sanitize=vptr', '-fno-sanitize-recover=undefined', '-fno-omit-frame-pointer']


def _ctype(mod, t, attrs):
    rt = mod.resolve(t)
    if isinstance(rt, ir.IntTy):
        if rt.bits == 1:
            return 'bool'
        sign = 'signext' in attrs
        return {8: 'int8_t' if sign else 'uint8_t', 16: 'int16_t' if sign else 'uint16_t',
                32: 'int32_t', 64: 'int64_t'}[rt.bits]
    if isinstance(rt, ir.PtrTy):
        return 'void*'
    raise ValueError('no C type for %r' % (t,))


def pointee_size(mod, t, attrs):
    n = max([x[1] for x in attrs if isinstance(x, tuple) and x[0] == 'deref'] or [0])
    if n:
        return n
    rt = mod.resolve(t)
    try:
        return mod.size_of(rt.pointee)
    except Exception:
        return 8


_objcache = {}


def native_object(san=True):
    """The same TU the IR came from, compiled to an object file (all inline functions emitted)."""
    key = san
    if key in _objcache and os.path.exists(_objcache[key][0]):
        return _objcache[key]
    d = build.scratch()
    src = os.path.join(d, 'emit.cpp')
    if not os.path.exists(src):
        build.logic_ll()
    out = os.path.join(d, 'emit_%s.o' % ('san' if san else 'plain'))
    cmd = ['clang++'] + build.CXXFLAGS + ['-O0', '-g', '-fno-access-control', '-femit-all-decls', '-c', src, '-o', out]
    if san:
        cmd[1:1] = SAN
    r = subprocess.run(cmd, capture_output=True, text=True)
    if r.returncode:
        raise RuntimeError(r.stderr[-3000:])
    st = os.path.join(d, 'stubs_%s.o' % ('san' if san else 'plain'))
    cmd = ['clang++'] + build.CXXFLAGS + ['-O0', '-g', '-c', os.path.join(build.STUBS, 'stubs.cpp'), '-o', st]
    if san:
        cmd[1:1] = SAN
    r = subprocess.run(cmd, capture_output=True, text=True)
    if r.returncode:
        raise RuntimeError(r.stderr[-3000:])
    _objcache[key] = (out, st)
    return _objcache[key]


def observe_terms(ex, fn, args, mem0):
    """Terms whose model values define the entry state: int args + bytes behind pointer args."""
    obs = {}
    for k, ((t, n, attrs), a) in enumerate(zip(fn.params, args)):
        if isinstance(a, Ptr):
            obs['a%d' % k] = a.off
            size = min(pointee_size(ex.mod, t, attrs), 1024)
            for j in range(size):
                obs['m%d_%d' % (k, j)] = z3.Select(mem0, a.off + BV(j, ex.pbits))
        elif z3.is_bv(a):
            obs['a%d' % k] = a
    return obs


def gen_harness(mod, fn, model, path):
    """Write the C++ harness; returns (ok, reason)."""
    decl_params = []
    call_args = []
    pre = []
    post = []
    rt = mod.resolve(fn.ret)
    for k, (t, n, attrs) in enumerate(fn.params):
        r = mod.resolve(t)
        if isinstance(r, ir.PtrTy):
            size = min(pointee_size(mod, t, attrs), 1024)
            vals = [model.get('obs!m%d_%d' % (k, j), 0) for j in range(size)]
            pre.append('alignas(16) static unsigned char buf%d[%d] = {%s};' % (k, size + 64, ','.join(map(str, vals))))
            decl_params.append('void*')
            call_args.append('(void*)buf%d' % k)
            post.append((k, size))
        else:
            ct = _ctype(mod, t, attrs)
            v = model.get('obs!a%d' % k, 0)
            if ct.startswith('int'):
                bits = r.bits
                if v >= 1 << (bits - 1):
                    v -= 1 << bits
            decl_params.append(ct)
            if ct == 'bool':
                call_args.append('true' if v else 'false')
            elif ct == 'int32_t' and v == -(1 << 31):
                call_args.append('(int32_t)(-2147483647-1)')
            elif ct == 'int64_t':
                call_args.append('(int64_t)%dLL' % v)
            else:
                call_args.append('(%s)%d' % (ct, v))
    if isinstance(rt, ir.VoidTy):
        rct, rbytes = 'void', 0
    elif isinstance(rt, ir.IntTy):
        rbytes = (rt.bits + 7) // 8
        if rt.bits == 1:
            rct = 'bool'
        elif rt.bits in (8, 16, 32, 64):
            rct = 'uint%d_t' % rt.bits
        else:
            rct = 'struct R { unsigned char b[%d]; }' % rbytes
    elif isinstance(rt, ir.PtrTy):
        rct, rbytes = 'void*', 8
    else:
        return False, 'return type %r' % (rt,)
    lines = ['#include <stdint.h>', '#include <stdio.h>', '#include <string.h>']
    if rct.startswith('struct'):
        lines.append(rct + ';')
        rct = 'R'
    lines.append('extern "C" %s target(%s) __asm__("%s");' % (rct, ', '.join(decl_params), fn.name))
    lines.append('int main() {')
    lines += ['  ' + p for p in pre]
    if rct == 'void':
        lines.append('  target(%s);' % ', '.join(call_args))
        lines.append('  printf("{\\"result\\": null");')
    else:
        lines.append('  %s r = target(%s);' % (rct, ', '.join(call_args)))
        lines.append('  unsigned char rb[16] = {0}; memcpy(rb, &r, %d);' % max(rbytes, 1))
        lines.append('  printf("{\\"result\\": ["); for (int i = 0; i < %d; i++) printf("%%s%%d", i ? "," : "", rb[i]); printf("]");' % max(rbytes, 1))
    for k, size in post:
        lines.append('  printf(", \\"buf%d\\": ["); for (int i = 0; i < %d; i++) printf("%%s%%d", i ? "," : "", buf%d[i]); printf("]");' % (k, size, k))
    lines.append('  printf("}\\n"); return 0; }')
    with open(path, 'w') as f:
        f.write('\n'.join(lines) + '\n')
    return True, None


def run_native(mod, fn, model, tag, timeout=20):
    """Returns dict(status= 'ok'|'sanitizer'|'timeout'|'error', out=..., stderr=...)."""
    d = build.scratch()
    src = os.path.join(d, 'replay_%s.cpp' % tag)
    ok, why = gen_harness(mod, fn, model, src)
    if not ok:
        return dict(status='error', stderr=why, src=None)
    obj, stubs = native_object(True)
    exe = src[:-4]
    r = subprocess.run(['clang++', '-std=c++11'] + SAN + [src, obj, stubs, '-o', exe], capture_output=True, text=True)
    if r.returncode:
        return dict(status='error', stderr=r.stderr[-2000:], src=src)
    env = dict(os.environ, ASAN_OPTIONS='detect_leaks=0:abort_on_error=0', UBSAN_OPTIONS='print_stacktrace=1')
    try:
        p = subprocess.run([exe], capture_output=True, text=True, timeout=timeout, env=env)
    except subprocess.TimeoutExpired:
        return dict(status='timeout', stderr='native run exceeded %ds' % timeout, src=src)
    if p.returncode != 0 or 'runtime error' in p.stderr or 'AddressSanitizer' in p.stderr:
        return dict(status='sanitizer', stderr=p.stderr[-3000:], out=p.stdout, src=src)
    try:
        out = json.loads(p.stdout.strip().split('\n')[-1])
    except Exception:
        return dict(status='error', stderr='unparsable output: ' + p.stdout[-500:], src=src)
    return dict(status='ok', out=out, src=src, stderr=p.stderr[-500:])


def eval_post(ex, contract, fn, model, native_out):
    """Re-instantiate the contract's ensures on the concrete entry state + native outputs.
    Returns list of (label, True/False/None)."""
    mod = ex.mod
    args = []
    mem = z3.K(z3.BitVecSort(ex.pbits), BV(0, 8))
    mem_new = None
    stores_old = []
    stores_new = []
    for k, (t, n, attrs) in enumerate(fn.params):
        r = mod.resolve(t)
        v = model.get('obs!a%d' % k, 0)
        if isinstance(r, ir.PtrTy):
            args.append(Ptr(None, BV(v, ex.pbits)))
            size = min(pointee_size(mod, t, attrs), 1024)
            for j in range(size):
                stores_old.append((v + j, model.get('obs!m%d_%d' % (k, j), 0)))
                nb = native_out.get('buf%d' % k)
                stores_new.append((v + j, nb[j] if nb else model.get('obs!m%d_%d' % (k, j), 0)))
        else:
            args.append(BV(v, r.bits))
    m_old = mem
    for a, b in stores_old:
        m_old = z3.Store(m_old, BV(a, ex.pbits), BV(b, 8))
    m_new = mem
    for a, b in stores_new:
        m_new = z3.Store(m_new, BV(a, ex.pbits), BV(b, 8))
    rt = mod.resolve(fn.ret)
    res = None
    if isinstance(rt, ir.IntTy):
        rb = native_out['result']
        val = 0
        for i, b in enumerate(rb[:(rt.bits + 7) // 8]):
            val |= b << (8 * i)
        res = BV(val & ((1 << rt.bits) - 1), rt.bits)
    old = MemView(ex, {}, m_old)
    new = MemView(ex, {}, m_new)
    c = Ctx(ex, fn, args, old, new=new, result=res)
    c.fn_params = fn.params
    c.ghost = {}
    c.log = []
    out = []
    try:
        pre_ok = all(z3.is_true(simp(p)) for p in contract.requires(Ctx(ex, fn, args, old)) if not isinstance(p, bool))
    except Exception:
        pre_ok = None
    for label, e in contract.ensures(c):
        v = simp(e)
        out.append((label, True if z3.is_true(v) else False if z3.is_false(v) else None))
    return pre_ok, out
