"""Parallel discharge of obligations. One query per obligation:
   assumptions /\ not goal  must be unsat.
Portfolio: z3 (python API, in a worker process) first; on unknown/timeout the
same SMT-LIB2 text goes to /usr/bin/z3, z3-new and cvc5.  The answering back
end and its time are recorded per obligation."""
import os
import subprocess
import tempfile
import time
import multiprocessing as mp
import z3

JOBS = int(os.environ.get('VERIF_JOBS', '16'))


def to_smt2(assumptions, goal, observe=None):
    s = z3.Solver()
    for a in assumptions:
        s.add(a)
    s.add(z3.Not(goal))
    if observe:
        for k, e in observe.items():
            if z3.is_bv(e):
                s.add(z3.BitVec('obs!' + k, e.size()) == e)
            elif z3.is_int(e):
                s.add(z3.Int('obs!' + k) == e)
            elif z3.is_bool(e):
                s.add(z3.Bool('obs!' + k) == e)
    return s.to_smt2()


def _cli(cmd, text, timeout):
    with tempfile.NamedTemporaryFile('w', suffix='.smt2', delete=False, dir=os.environ.get('VERIF_SCRATCH')) as f:
        f.write(text)
        path = f.name
    try:
        t0 = time.time()
        try:
            out = subprocess.run(cmd + [path], capture_output=True, text=True, timeout=timeout + 5).stdout
        except subprocess.TimeoutExpired:
            return 'unknown', time.time() - t0
        first = out.strip().split('\n')[0].strip() if out.strip() else 'unknown'
        if first not in ('sat', 'unsat'):
            first = 'unknown'
        return first, time.time() - t0
    finally:
        os.unlink(path)


def _work(job):
    idx, text, timeout, want_model, int_text = job
    t0 = time.time()
    res = 'unknown'
    model = None
    backend = 'z3py-%s' % z3.get_version_string()
    if int_text:
        # abstraction to linear integer arithmetic: only 'unsat' is trusted
        tq = max(5, int(timeout / 4))
        for bname, cmd in (('z3-new-5.1.0', ['z3-new', '-T:%d' % tq]),
                           ('cvc5-1.0.3', ['/usr/bin/cvc5', '-q', '--tlimit=%d' % (tq * 1000)]),
                           ('z3-4.8.12', ['/usr/bin/z3', '-T:%d' % tq])):
            r, dt = _cli(cmd, int_text, tq)
            if r == 'unsat':
                return idx, 'unsat', bname + '-intblast', time.time() - t0, None
    if '(forall ' in text or '(exists ' in text:
        # quantified obligations: the older z3's E-matching decides these in seconds where 5.1 often gives up
        r, dt = _cli(['/usr/bin/z3', '-T:%d' % max(10, int(timeout / 3))], text, max(10, int(timeout / 3)))
        if r == 'unsat':
            return idx, 'unsat', 'z3-4.8.12', time.time() - t0, None
    try:
        s = z3.Solver()
        s.set('timeout', int(timeout * 1000))
        s.set('random_seed', 1)
        s.from_string(text)
        r = s.check()
        res = str(r)
        if r == z3.sat and want_model:
            m = s.model()
            model = {}
            for d in m.decls():
                if d.arity() == 0:
                    v = m[d]
                    if z3.is_bv_value(v) or z3.is_int_value(v):
                        model[d.name()] = v.as_long()
                    elif z3.is_true(v) or z3.is_false(v):
                        model[d.name()] = bool(z3.is_true(v))
    except z3.Z3Exception as e:
        res = 'unknown'
    if res == 'unknown':
        for bname, cmd in (('z3-4.8.12', ['/usr/bin/z3', '-T:%d' % int(timeout)]),
                           ('cvc5-1.0.3', ['/usr/bin/cvc5', '--tlimit=%d' % int(timeout * 1000), '--bv-solver=bitblast']),
                           ):
            if not os.path.exists(cmd[0]):
                continue
            r, dt = _cli(cmd, text, timeout)
            if r in ('sat', 'unsat'):
                res = r
                backend = bname
                break
    return idx, res, backend, time.time() - t0, model


def discharge(obs, timeout=60, jobs=None, observe=None, progress=None):
    """obs: list of Obligation (status None => pending). Fills status/backend/time/model."""
    jobs = jobs or JOBS
    # solver budgets are wall-clock: when the machine is oversubscribed (several checks side by side) they are stretched by the
    # load per core, so that a verdict does not flip from discharged to undecided just because the cores are shared
    try:
        scale = min(8.0, max(1.0, os.getloadavg()[0] / (os.cpu_count() or 1)))
    except OSError:
        scale = 1.0
    timeout = timeout * scale
    pending = [(i, o) for i, o in enumerate(obs) if o.status is None]
    work = []
    for i, o in pending:
        atoms = getattr(o, 'atoms', None)
        if atoms:
            # definitions of the named multi-byte reads of initial memory
            o.pc = list(o.pc) + [a == t for a, t in atoms.values()]
            o.atoms = None
        text = to_smt2(o.pc, o.goal, observe if observe is not None else o.info.get('observe'))
        int_text = None
        if o.info.get('logic') == 'int':
            from . import intblast
            try:
                asm, g = intblast.translate(o.pc, o.goal)
                int_text = to_smt2(asm, g)
            except Exception as e:   # translation is best effort
                int_text = None
        work.append((i, text, o.info.get('timeout', timeout) * (scale if 'timeout' in o.info else 1.0), True, int_text))
        o.smt2 = text
    if not work:
        return
    ctx = mp.get_context('fork')
    with ctx.Pool(min(jobs, len(work))) as pool:
        for idx, res, backend, dt, model in pool.imap_unordered(_work, work):
            o = obs[idx]
            o.status = res
            o.backend = backend
            o.time = dt
            o.model = model
            if progress:
                progress(o)
