"""Symbolic executor over the LLVM IR of the real AceTime functions: generates
the proof obligations for one function under contract (DESIGN.md 2.2).

Values
  integers            z3 bit-vectors of the IR width (i1 = 1-bit vector)
  pointers            Ptr(obj, off): obj is a MemObj (alloca / constant global)
                      or None for memory that belongs to the caller ("external"),
                      in which case off is the absolute address
  function pointers   FnPtr(name)

Memory
  allocas / constant globals   python lists of byte terms
  everything else              one SMT array  mem : BV(ptr) -> BV8
"""
import itertools
import z3

from . import ir

PTR_BITS = 64


def BV(v, w):
    return z3.BitVecVal(v, w)


def is_concrete(e):
    return z3.is_bv_value(e)


def simp(e):
    return z3.simplify(e)


class Ptr:
    __slots__ = ('obj', 'off', 'cands', 'need')

    def __init__(self, obj, off, cands=None, need=None):
        self.obj = obj
        self.off = off
        self.cands = cands  # list of concrete candidate offsets when off is symbolic
        self.need = need    # condition under which the pointer may be dereferenced (array index strictly in range)

    def __repr__(self):
        return 'Ptr(%s,%s)' % (self.obj.name if self.obj else 'ext', self.off)


class FnPtr:
    __slots__ = ('name',)

    def __init__(self, name):
        self.name = name


class MemObj:
    _ids = itertools.count(1)

    def __init__(self, name, size, kind, const=False):
        self.id = next(MemObj._ids)
        self.name = name
        self.size = size
        self.kind = kind
        self.const = const
        self.base = None   # concrete fake address
        self.escaped = False
        self.frame = None


class Obligation:
    def __init__(self, name, kind, fn, line, pc, goal, info=None):
        self.name = name
        self.kind = kind
        self.fn = fn
        self.line = line
        self.pc = pc
        self.goal = goal
        self.info = info or {}
        self.status = None
        self.backend = None
        self.time = 0.0
        self.model = None


SAFETY_KINDS = ('nsw', 'nuw', 'div', 'shift', 'index', 'null', 'unreachable', 'bounds')


class Undecided(Exception):
    pass


class OutOfReach(Exception):
    pass


class Frame:
    def __init__(self, fn, depth):
        self.fn = fn
        self.depth = depth
        self.block = None
        self.idx = 0
        self.prev = None
        self.regs = {}
        self.allocas = {}     # name -> MemObj
        self.ret_dest = None  # (dest reg name, ty) in the caller
        self.loop_visits = {}
        self.call_line = None

    def copy(self):
        f = Frame(self.fn, self.depth)
        f.block, f.idx, f.prev = self.block, self.idx, self.prev
        f.regs = dict(self.regs)
        f.allocas = dict(self.allocas)
        f.ret_dest = self.ret_dest
        f.loop_visits = dict(self.loop_visits)
        f.call_line = self.call_line
        return f


class State:
    def __init__(self):
        self.frames = []
        self.bytes = {}      # MemObj.id -> list of byte terms
        self.objs = {}       # MemObj.id -> MemObj
        self.mem = None
        self.pc = []
        self.ext_stores = []  # (addr, nbytes, fn, line)
        self.ghost = {}
        self.log = []        # ghost call log
        self.cut = None      # set when the path ended at a loop cut point
        self.nfresh = 0
        self.typed = {}      # (base key, offset, nbytes) -> (value, mem) : last whole-value store still valid

    def copy(self):
        s = State()
        s.frames = [f.copy() for f in self.frames]
        s.bytes = {k: list(v) for k, v in self.bytes.items()}
        s.objs = dict(self.objs)
        s.mem = self.mem
        s.pc = list(self.pc)
        s.ext_stores = list(self.ext_stores)
        s.ghost = dict(self.ghost)
        s.log = list(self.log)
        s.nfresh = self.nfresh
        s.typed = dict(self.typed)
        return s


class MemView:
    """Read-only snapshot of memory used by contracts."""

    def __init__(self, ex, bytes_, mem, typed=None):
        self.ex = ex
        self.bytes = bytes_
        self.mem = mem
        self.typed = typed or {}

    def load(self, ptr, nbytes):
        if self.typed and isinstance(ptr, Ptr) and (ptr.obj is None or ptr.obj.kind == 'extglobal'):
            base, off = self.ex._addr_key(self.ex.ptr_to_bv(ptr))
            v = self.typed.get((base, off, nbytes))
            if v is not None:
                return v
        return self.ex._load_raw(self.bytes, self.mem, ptr, nbytes, None)

    def load_ptr(self, ptr):
        if self.typed and isinstance(ptr, Ptr) and (ptr.obj is None or ptr.obj.kind == 'extglobal'):
            base, off = self.ex._addr_key(self.ex.ptr_to_bv(ptr))
            v = self.typed.get((base, off, self.ex.pbytes))
            if v is not None:
                return Ptr(None, v)
        v = self.ex._load_raw(self.bytes, self.mem, ptr, self.ex.pbytes, None, want_ptr=True)
        return v

    def field(self, ptr, cls, name, signed=None):
        off, size = self.ex.mod.field(cls, name)
        return self.load(self.ex.ptr_add(ptr, off), size)

    def field_ptr(self, ptr, cls, name):
        off, size = self.ex.mod.field(cls, name)
        return self.load_ptr(self.ex.ptr_add(ptr, off))


class Ctx:
    """What a contract sees."""

    def __init__(self, ex, fn, args, old, new=None, result=None, state=None):
        self.ex = ex
        self.fn = fn
        self.args = args
        self.old = old
        self.new = new
        self.result = result
        self.state = state
        self.mod = ex.mod
        self.touched = set()
        self.own = False     # True while the contract is evaluated for the function being verified (entry and exit), False at a call site

    # the ghost store and the call log belong to the function being verified; a callee's clause that reads them at a call site would
    # read the CALLER's history, so reads are recorded and _apply_contract refuses such a clause (see there)
    @property
    def log(self):
        self.touched.add('log')
        return self._log

    @log.setter
    def log(self, v):
        self._log = v

    @property
    def ghost(self):
        self.touched.add('ghost')
        return self._ghost

    @ghost.setter
    def ghost(self, v):
        self._ghost = v

    def arg(self, name_or_idx):
        if isinstance(name_or_idx, int):
            return self.args[name_or_idx]
        for (t, n, a), v in zip(self.fn_params, self.args):
            if n == name_or_idx:
                return v
        raise KeyError(name_or_idx)

    @property
    def this(self):
        return self.args[0]

    def addr(self, ptr, off=0):
        return self.ex.ptr_add(ptr, off)

    def field_addr(self, ptr, cls, name):
        off, size = self.mod.field(cls, name)
        return self.ex.ptr_add(ptr, off), size

    def sizeof(self, cls):
        return self.ex.class_size(cls)

    def fresh(self, name, bits):
        return self.ex.fresh(name, bits, self.state)

    def result_bytes(self, lo, n=1):
        """bytes [lo, lo+n) of a by-value (coerced) result, little endian."""
        return z3.Extract(8 * (lo + n) - 1, 8 * lo, self.result)


class Engine:
    def __init__(self, mod, contracts=None, externs=None, options=None):
        self.mod = mod
        self.contracts = contracts or {}      # demangled name -> Contract
        if mod.ptr_bits == 16:
            # 16-bit-int target (AVR): int16_t is `int` and int32_t is `long`, so the demangled signatures differ from the ones the
            # contracts are keyed by; contracts are looked up under the translated name as well
            self.contracts = dict(self.contracts)
            for k, v in list(self.contracts.items()):
                self.contracts.setdefault(avr_name(k), v)
        self.externs = externs or {}          # mangled or demangled name -> callable(ex, st, ins, args)
        self.opt = dict(max_paths=4000, max_inline_depth=12, unroll=40, feas_timeout_ms=3000,
                        check_feasibility=True)
        if options:
            self.opt.update(options)
        self.pbits = mod.ptr_bits
        self.pbytes = mod.ptr_bits // 8
        global PTR_BITS
        PTR_BITS = self.pbits
        self.mem_sort = z3.ArraySort(z3.BitVecSort(self.pbits), z3.BitVecSort(8))
        self.globals = {}     # name -> MemObj
        self.global_bytes = {}
        self.next_base = 0x10000000 if self.pbits >= 32 else 0x2000
        self.obligations = []
        self.paths = 0
        self.fresh_ctr = itertools.count()
        self.solver = z3.Solver()
        self.solver.set('timeout', self.opt['feas_timeout_ms'])
        self.solver.set('rlimit', 3000000)      # resource bound as well: the time-out alone is not honoured by every tactic
        self.covers = []
        self.stats = dict(feas_checks=0, inlined=0, contract_calls=0)
        self._class_sizes = None
        self._virt = None
        self.current_top = None
        self.atoms = {}      # sexpr of a multi-byte read of initial memory -> (atomic variable, defining term)

    # ---- helpers -------------------------------------------------------------
    def fresh(self, name, bits, st=None):
        return z3.BitVec('%s!%d' % (name, next(self.fresh_ctr)), bits)

    def class_size(self, cls):
        if self._class_sizes is None:
            self._class_sizes = {}
            for mid, text in self.mod.meta.items():
                pass
        # use LLVM type table: class.<name> / struct.<name>
        for pre in ('class.', 'struct.', 'union.'):
            k = pre + cls
            if k in self.mod.types:
                return self.mod.size_of(ir.NamedTy(k))
        # templates: LLVM names drop template args
        base = cls.split('<')[0]
        for pre in ('class.', 'struct.'):
            k = pre + base
            if k in self.mod.types:
                return self.mod.size_of(ir.NamedTy(k))
        raise KeyError(cls)

    def new_obj(self, st, name, size, kind, const=False):
        o = MemObj(name, size, kind, const)
        o.base = self.next_base
        self.next_base += (size + 0x100 + 15) // 16 * 16
        if st is not None:
            st.objs[o.id] = o
        return o

    def ptr_add(self, p, k):
        if isinstance(k, int):
            if k == 0:
                return p
            kk = BV(k, self.pbits)
            cands = [c + k for c in p.cands] if p.cands is not None else None
            return Ptr(p.obj, simp(p.off + kk), cands, p.need)
        return Ptr(p.obj, simp(p.off + k), None, p.need)

    def ptr_to_bv(self, p):
        if isinstance(p, FnPtr):
            return BV(0x7000000 + (hash(p.name) & 0xffff) * 16, self.pbits)
        if p.obj is None:
            return p.off
        return simp(BV(p.obj.base, self.pbits) + p.off)

    def bv_to_ptr(self, st, v):
        v = simp(v)
        if is_concrete(v):
            a = v.as_long()
            for o in list(st.objs.values()) + list(self.globals.values()):
                if o.base <= a < o.base + max(o.size, 1):
                    return Ptr(o, BV(a - o.base, self.pbits))
        return Ptr(None, v)

    # ---- globals -------------------------------------------------------------
    def global_ptr(self, st, name):
        if name in self.mod.functions or name in self.mod.declares:
            return FnPtr(name)
        g = self.mod.globals.get(name)
        if g is None:
            raise OutOfReach('unknown global @%s' % name)
        if name in self.globals:
            return Ptr(self.globals[name], BV(0, self.pbits))
        if g.ty is None:
            raise OutOfReach('global @%s has an unparsed type' % name)
        size = self.mod.size_of(g.ty) if not (isinstance(g.ty, ir.ArrTy) and g.ty.n == 0) else 0
        if g.constant and g.init is not None:
            o = self.new_obj(None, '@' + name, size, 'global', const=True)
            self.globals[name] = o
            data = [None] * size
            self._init_bytes(st, data, 0, g.ty, g.init)
            self.global_bytes[o.id] = data
            return Ptr(o, BV(0, self.pbits))
        # mutable or external global: lives in external memory at a fixed address
        o = self.new_obj(None, '@' + name, max(size, 8), 'extglobal')
        self.globals[name] = o
        return Ptr(o, BV(0, self.pbits))

    def _init_bytes(self, st, data, off, ty, val):
        mod = self.mod
        rty = mod.resolve(ty)
        if isinstance(val, ir.Zero) or isinstance(val, ir.Null):
            n = mod.size_of(ty)
            for k in range(n):
                data[off + k] = BV(0, 8)
            return
        if isinstance(val, ir.Undef):
            n = mod.size_of(ty)
            for k in range(n):
                data[off + k] = BV(0, 8)
            return
        if isinstance(val, ir.ConstInt):
            n = mod.store_size(ty)
            v = val.v & ((1 << (8 * n)) - 1)
            for k in range(n):
                data[off + k] = BV((v >> (8 * k)) & 0xff, 8)
            for k in range(n, mod.size_of(ty)):
                data[off + k] = BV(0, 8)
            return
        if isinstance(val, ir.ConstStr):
            for k, b in enumerate(val.data):
                data[off + k] = BV(b, 8)
            return
        if isinstance(val, ir.ConstAgg):
            if isinstance(rty, ir.ArrTy):
                es = mod.size_of(rty.elem)
                for k, (t, v) in enumerate(val.elems):
                    self._init_bytes(st, data, off + k * es, t, v)
            else:
                for k, (t, v) in enumerate(val.elems):
                    self._init_bytes(st, data, off + mod.elem_offset(rty, k), t, v)
            # padding
            for k in range(off, off + mod.size_of(ty)):
                if data[k] is None:
                    data[k] = BV(0, 8)
            return
        if isinstance(val, (ir.GlobalRef, ir.ConstExpr)):
            p = self.const_value(st, ty, val)
            if isinstance(p, (Ptr, FnPtr)):
                for k in range(self.pbytes):
                    data[off + k] = ('p', p, k)
            else:
                n = mod.store_size(ty)
                for k in range(n):
                    data[off + k] = simp(z3.Extract(8 * k + 7, 8 * k, p))
            return
        raise OutOfReach('initialiser %r' % (val,))

    def const_value(self, st, ty, val):
        if isinstance(val, ir.ConstInt):
            return BV(val.v, self.mod.resolve(ty).bits)
        if isinstance(val, ir.Null):
            return Ptr(None, BV(0, self.pbits))
        if isinstance(val, (ir.Undef, ir.Zero)):
            rty = self.mod.resolve(ty)
            if isinstance(rty, ir.IntTy):
                return BV(0, rty.bits) if isinstance(val, ir.Zero) else self.fresh('undef', rty.bits)
            if isinstance(rty, ir.PtrTy):
                return Ptr(None, BV(0, self.pbits))
            if isinstance(rty, (ir.StructTy, ir.ArrTy)):
                n = self.mod.size_of(rty)
                return BV(0, 8 * n) if isinstance(val, ir.Zero) else self.fresh('undef', 8 * n)
            raise OutOfReach('aggregate undef/zero operand')
        if isinstance(val, ir.GlobalRef):
            return self.global_ptr(st, val.name)
        if isinstance(val, ir.ConstExpr):
            if val.op in ('bitcast', 'addrspacecast'):
                return self.const_value(st, val.args[0][0], val.args[0][1])
            if val.op == 'getelementptr':
                base = self.const_value(st, val.args[0][0], val.args[0][1])
                idx = [(t, self.const_value(st, t, v)) for t, v in val.args[1:]]
                return self.gep(None, base, val.srcty, idx, None)
            if val.op == 'ptrtoint':
                p = self.const_value(st, val.args[0][0], val.args[0][1])
                v = self.ptr_to_bv(p)
                bits = self.mod.resolve(val.ty).bits
                return v if bits == self.pbits else simp(z3.Extract(bits - 1, 0, v))
            if val.op == 'inttoptr':
                v = self.const_value(st, val.args[0][0], val.args[0][1])
                return Ptr(None, simp(z3.ZeroExt(self.pbits - v.size(), v)) if v.size() < self.pbits else v)
            if val.op in ir.BIN_OPS:
                a = self.const_value(st, val.args[0][0], val.args[0][1])
                b = self.const_value(st, val.args[1][0], val.args[1][1])
                return simp(self.binop(val.op, a, b))
            if val.op in ('trunc', 'zext', 'sext'):
                a = self.const_value(st, val.args[0][0], val.args[0][1])
                return simp(self.cast(val.op, a, self.mod.resolve(val.ty).bits))
        raise OutOfReach('constant %r' % (val,))

    # ---- first-class aggregates: a struct / array VALUE is the bit-vector of its memory layout (little endian bytes) -------
    def _agg_path(self, ty, idx):
        """(byte offset, element type) of the element selected by the constant index path"""
        off = 0
        for k in idx:
            rty = self.mod.resolve(ty)
            if isinstance(rty, ir.StructTy):
                off += self.mod.elem_offset(rty, k)
                ty = rty.elems[k]
            elif isinstance(rty, ir.ArrTy):
                off += k * self.mod.size_of(rty.elem)
                ty = rty.elem
            else:
                raise OutOfReach('aggregate path into %r' % (rty,))
        return off, ty

    def _is_agg(self, ty):
        return isinstance(self.mod.resolve(ty), (ir.StructTy, ir.ArrTy))

    # ---- operand evaluation ---------------------------------------------------
    def ev(self, st, ty, val):
        if isinstance(val, ir.Reg):
            fr = st.frames[-1]
            if val.name not in fr.regs:
                raise OutOfReach('undefined register %%%s in %s' % (val.name, fr.fn.demangled))
            return fr.regs[val.name]
        return self.const_value(st, ty, val)

    # ---- memory ----------------------------------------------------------------
    def obj_bytes(self, bytes_, obj):
        if obj.const:
            return self.global_bytes[obj.id]
        return bytes_[obj.id]

    def _byte_term(self, b):
        if isinstance(b, tuple):
            tag, p, k = b
            if tag == 'x':      # byte k of the integer value p (kept whole so that a matching load returns p itself)
                return simp(z3.Extract(8 * k + 7, 8 * k, p))
            v = self.ptr_to_bv(p)
            return simp(z3.Extract(8 * k + 7, 8 * k, v))
        return b

    @staticmethod
    def _simple_addr(addr):
        """address of the form  symbol  or  symbol + constant  (a field of an object handed in by the caller); loads at
        computed addresses are left as they are (they may mention bound variables of quantified contract clauses)"""
        a = simp(addr)
        if z3.is_const(a) and not z3.is_bv_value(a):
            return True
        if a.decl().kind() == z3.Z3_OP_BADD and len(a.children()) == 2:
            x, y = a.children()
            return (z3.is_bv_value(x) and z3.is_const(y) and not z3.is_bv_value(y)) or \
                   (z3.is_bv_value(y) and z3.is_const(x) and not z3.is_bv_value(x))
        return False

    @staticmethod
    def _addr_key(addr):
        """(base key, constant offset) of an address term"""
        a = simp(addr)
        if z3.is_bv_value(a):
            return ('#', a.as_long())
        if a.decl().kind() == z3.Z3_OP_BADD and len(a.children()) == 2:
            x, y = a.children()
            if z3.is_bv_value(x):
                return (y.sexpr(), x.as_long())
            if z3.is_bv_value(y):
                return (x.sexpr(), y.as_long())
        return (a.sexpr(), 0)

    # ---- separated regions (Contract.separated) ----------------------------------------------------------------
    def _mem_register(self, mem, base, log):
        self.mem_info[mem.get_id()] = (mem, base, log)

    def _mem_derive(self, old, new, entry):
        info = getattr(self, 'mem_info', {}).get(old.get_id())
        if info is not None:
            self._mem_register(new, info[1], info[2] + [entry])

    def _region_of(self, addr, n):
        base, off = self._addr_key(addr)
        for i, (rb, ro, rs) in enumerate(getattr(self, 'sep', ()) or ()):
            if rb == base and ro <= off and off + n <= ro + rs:
                return i
        return None

    def _filtered_mem(self, mem, addr, n):
        if not getattr(self, 'sep', None):
            return mem
        info = self.mem_info.get(mem.get_id())
        if info is None or not info[2]:
            return mem
        R = self._region_of(addr, n)
        if R is None:
            return mem
        ck = (mem.get_id(), R)
        if ck in self.mem_filtered:
            return self.mem_filtered[ck][1]
        m = info[1]
        skipped = False
        for (a2, n2, bs2) in info[2]:
            R2 = self._region_of(a2, n2)
            if R2 is not None and R2 != R:
                skipped = True
                continue
            for k in range(n2):
                m = z3.Store(m, simp(a2 + BV(k, self.pbits)), bs2[k])
        res = m if skipped else mem
        self.mem_filtered[ck] = (mem, res)
        return res

    def _load_raw(self, bytes_, mem, ptr, n, st, want_ptr=False):
        if isinstance(ptr, FnPtr):
            raise OutOfReach('load through function pointer')
        if ptr.obj is None or ptr.obj.kind == 'extglobal':
            addr = self.ptr_to_bv(ptr)
            mem = self._filtered_mem(mem, addr, n)
            bs = [z3.Select(mem, simp(addr + BV(k, self.pbits))) for k in range(n)]
            v = bs[0] if n == 1 else z3.Concat(*reversed(bs))
            v = simp(v)
            if n > 1 and self._simple_addr(addr) and z3.is_app(v) and v.decl().kind() == z3.Z3_OP_CONCAT and all(
                    c.decl().kind() == z3.Z3_OP_SELECT and z3.is_const(c.arg(0)) for c in v.children()):
                # a multi-byte read of untouched caller memory: name it, so that later rewriting cannot split it
                key = v.sexpr()
                if key not in self.atoms:
                    self.atoms[key] = (z3.BitVec('ld!%d' % len(self.atoms), 8 * n), v)
                v = self.atoms[key][0]
            if want_ptr:
                return self.bv_to_ptr(st, v) if st is not None else Ptr(None, v)
            return v
        data = self.obj_bytes(bytes_, ptr.obj)
        off = simp(ptr.off)
        if is_concrete(off):
            o = off.as_long()
            if o >= (1 << (self.pbits - 1)):
                o -= 1 << self.pbits
            return self._load_at(data, ptr.obj, o, n, want_ptr, st)
        cands = ptr.cands
        if cands is None:
            cands = list(range(0, max(ptr.obj.size - n + 1, 0)))
            if len(cands) > 256:
                raise OutOfReach('symbolic offset into %s (%d bytes)' % (ptr.obj.name, ptr.obj.size))
        cands = [c for c in cands if 0 <= c and c + n <= ptr.obj.size]
        if not cands:
            raise OutOfReach('no in-bounds candidate for symbolic access into %s' % ptr.obj.name)
        vals = [self._load_at(data, ptr.obj, c, n, want_ptr, st) for c in cands]
        if want_ptr or any(isinstance(v, (Ptr, FnPtr)) for v in vals):
            vals = [self.ptr_to_bv(v) if isinstance(v, (Ptr, FnPtr)) else v for v in vals]
            r = vals[-1]
            for c, v in zip(reversed(cands[:-1]), reversed(vals[:-1])):
                r = z3.If(off == BV(c, self.pbits), v, r)
            return self.bv_to_ptr(st, r) if st is not None else Ptr(None, simp(r))
        r = vals[-1]
        for c, v in zip(reversed(cands[:-1]), reversed(vals[:-1])):
            r = z3.If(off == BV(c, self.pbits), v, r)
        return simp(r)

    def _load_at(self, data, obj, o, n, want_ptr, st):
        if o < 0 or o + n > obj.size:
            raise OutOfReach('concrete out-of-bounds access %s[%d..%d)' % (obj.name, o, o + n))
        bs = data[o:o + n]
        if n == self.pbytes and all(isinstance(b, tuple) and b[0] == 'p' for b in bs):
            p0 = bs[0][1]
            if all(b[1] is p0 and b[2] == k for k, b in enumerate(bs)):
                return p0
        if all(isinstance(b, tuple) and b[0] == 'x' for b in bs):
            v0 = bs[0][1]
            if v0.size() == 8 * n and all(b[1] is v0 and b[2] == k for k, b in enumerate(bs)):
                if want_ptr:
                    return self.bv_to_ptr(st, v0) if st is not None else Ptr(None, v0)
                return v0
        for k in range(n):
            if bs[k] is None:
                bs[k] = self.fresh('uninit_%s_%d' % (obj.name.strip('@%'), o + k), 8)
                data[o + k] = bs[k]
        ts = [self._byte_term(b) for b in bs]
        v = ts[0] if n == 1 else z3.Concat(*reversed(ts))
        v = simp(v)
        if want_ptr:
            return self.bv_to_ptr(st, v) if st is not None else Ptr(None, v)
        return v

    def load(self, st, ptr, ty, ins=None):
        rty = self.mod.resolve(ty)
        if isinstance(rty, ir.PtrTy):
            self._bounds_ob(st, ptr, self.pbytes, ins)
            if (ptr.obj is None or ptr.obj.kind == 'extglobal') and st.typed:
                base, off = self._addr_key(self.ptr_to_bv(ptr))
                v = st.typed.get((base, off, self.pbytes))
                if v is not None:
                    return self.bv_to_ptr(st, v)
            return self._load_raw(st.bytes, st.mem, ptr, self.pbytes, st, want_ptr=True)
        if isinstance(rty, ir.IntTy):
            n = (rty.bits + 7) // 8
            self._bounds_ob(st, ptr, n, ins)
            v = None
            if (ptr.obj is None or ptr.obj.kind == 'extglobal') and st.typed:
                base, off = self._addr_key(self.ptr_to_bv(ptr))
                v = st.typed.get((base, off, n))
            if v is None:
                v = self._load_raw(st.bytes, st.mem, ptr, n, st)
            if isinstance(v, (Ptr, FnPtr)):
                v = self.ptr_to_bv(v)
            if rty.bits != 8 * n:
                v = simp(z3.Extract(rty.bits - 1, 0, v))
            return v
        if isinstance(rty, (ir.StructTy, ir.ArrTy)):
            n = self.mod.size_of(rty)
            self._bounds_ob(st, ptr, n, ins)
            v = self._load_raw(st.bytes, st.mem, ptr, n, st)
            if isinstance(v, (Ptr, FnPtr)):
                v = self.ptr_to_bv(v)
            return v
        raise OutOfReach('load of type %r' % (ty,))

    def _bounds_ob(self, st, ptr, n, ins):
        if isinstance(ptr, Ptr) and ptr.need is not None and st is not None:
            self.ob(st, 'index', ins, ptr.need, info={'what': 'array element dereferenced'})
            st.pc.append(simp(ptr.need))
            ptr.need = None
        if isinstance(ptr, FnPtr) or ptr.obj is None or ptr.obj.kind == 'extglobal':
            return
        off = simp(ptr.off)
        if is_concrete(off):
            o = off.as_long()
            if o >= (1 << (self.pbits - 1)):
                o -= 1 << self.pbits
            if o < 0 or o + n > ptr.obj.size:
                self.ob(st, 'bounds', ins, z3.BoolVal(False),
                        info={'what': 'access %s[%d..%d) of %d bytes' % (ptr.obj.name, o, o + n, ptr.obj.size)})
                raise PathEnd()
            return
        goal = z3.And(z3.ULE(off, BV(ptr.obj.size - n, self.pbits)))
        self.ob(st, 'bounds', ins, goal, info={'what': 'symbolic offset into %s (%d bytes)' % (ptr.obj.name, ptr.obj.size)})
        st.pc.append(goal)

    def store_bytes(self, st, ptr, bs, ins=None):
        n = len(bs)
        if isinstance(ptr, FnPtr):
            raise OutOfReach('store through function pointer')
        if ptr.obj is None or ptr.obj.kind == 'extglobal':
            self._bounds_ob(st, ptr, n, ins)
            addr = self.ptr_to_bv(ptr)
            base, off = self._addr_key(addr)
            for key in list(st.typed):
                if key[0] != base or not (key[1] + key[2] <= off or off + n <= key[1]):
                    del st.typed[key]
            m = st.mem
            terms = [self._byte_term(bs[k]) for k in range(n)]
            for k in range(n):
                m = z3.Store(m, simp(addr + BV(k, self.pbits)), terms[k])
            self._mem_derive(st.mem, m, (addr, n, terms))
            st.mem = m
            fr = st.frames[-1] if st.frames else None
            st.ext_stores.append((addr, n, fr.fn.demangled if fr else '?', ins.line if ins is not None else None))
            return
        if ptr.obj.const:
            self.ob(st, 'bounds', ins, z3.BoolVal(False), info={'what': 'store into constant ' + ptr.obj.name})
            raise PathEnd()
        self._bounds_ob(st, ptr, n, ins)
        data = st.bytes[ptr.obj.id]
        off = simp(ptr.off)
        if is_concrete(off):
            o = off.as_long()
            for k in range(n):
                data[o + k] = bs[k]
            return
        cands = ptr.cands
        if cands is None:
            cands = list(range(0, max(ptr.obj.size - n + 1, 0)))
            if len(cands) > 256:
                raise OutOfReach('symbolic store offset into %s' % ptr.obj.name)
        cands = [c for c in cands if 0 <= c and c + n <= ptr.obj.size]
        for c in cands:
            cond = off == BV(c, self.pbits)
            for k in range(n):
                old = data[c + k]
                if old is None:
                    old = self.fresh('uninit', 8)
                data[c + k] = simp(z3.If(cond, self._byte_term(bs[k]), self._byte_term(old)))

    def store(self, st, ptr, ty, val, ins=None):
        rty = self.mod.resolve(ty)
        if isinstance(val, (Ptr, FnPtr)):
            if isinstance(val, Ptr) and val.obj is not None:
                val.obj.escaped = True
            if isinstance(val, FnPtr) or (val.obj is not None and ptr.obj is not None and ptr.obj.kind != 'extglobal'):
                bs = [('p', val, k) for k in range(self.pbytes)]
            else:
                v = self.ptr_to_bv(val)
                bs = [('x', v, k) for k in range(self.pbytes)]
            self.store_bytes(st, ptr, bs, ins)
            if ptr.obj is None or ptr.obj.kind == 'extglobal':
                base, off = self._addr_key(self.ptr_to_bv(ptr))
                st.typed[(base, off, self.pbytes)] = self.ptr_to_bv(val)
            return
        if isinstance(rty, ir.IntTy):
            n = (rty.bits + 7) // 8
            v = val
            if rty.bits != 8 * n:
                v = simp(z3.ZeroExt(8 * n - rty.bits, v))
            bs = [('x', v, k) for k in range(n)] if n > 1 else [v]
            self.store_bytes(st, ptr, bs, ins)
            if ptr.obj is None or ptr.obj.kind == 'extglobal':
                base, off = self._addr_key(self.ptr_to_bv(ptr))
                st.typed[(base, off, n)] = v
            return
        if isinstance(rty, (ir.StructTy, ir.ArrTy)):
            n = self.mod.size_of(rty)
            if val.size() != 8 * n:
                raise OutOfReach('aggregate value of unexpected width')
            self.store_bytes(st, ptr, [('x', val, k) for k in range(n)] if n > 1 else [val], ins)
            return
        raise OutOfReach('store of type %r' % (ty,))

    def havoc(self, st, ptr, n, tag='havoc'):
        if (ptr.obj is None or ptr.obj.kind == 'extglobal') and n > 32:
            # large region: one fresh array for the whole range instead of n nested stores;
            # membership "a - base <u n" is decided syntactically for addresses that share the symbolic base
            st.typed.clear()
            base = self.ptr_to_bv(ptr)
            fresh_arr = z3.Array('%s!%d' % (tag, next(self.fresh_ctr)), z3.BitVecSort(self.pbits), z3.BitVecSort(8))
            a = z3.BitVec('hv_a', self.pbits)
            st.mem = z3.Lambda([a], z3.If(z3.ULT(a - base, BV(n, self.pbits)), z3.Select(fresh_arr, a), z3.Select(st.mem, a)))
            if hasattr(self, 'mem_info'):
                self._mem_register(st.mem, st.mem, [])
            return
        bs = [self.fresh(tag, 8) for _ in range(n)]
        if ptr.obj is None or ptr.obj.kind == 'extglobal':
            st.typed.clear()
            addr = self.ptr_to_bv(ptr)
            m = st.mem
            for k in range(n):
                m = z3.Store(m, simp(addr + BV(k, self.pbits)), bs[k])
            self._mem_derive(st.mem, m, (addr, n, list(bs)))
            st.mem = m
        else:
            data = st.bytes[ptr.obj.id]
            off = simp(ptr.off)
            if not is_concrete(off):
                for k in range(ptr.obj.size):
                    data[k] = self.fresh(tag, 8)
            else:
                o = off.as_long()
                for k in range(n):
                    if 0 <= o + k < ptr.obj.size:
                        data[o + k] = bs[k]

    # ---- arithmetic ---------------------------------------------------------------
    def binop(self, op, a, b):
        if op == 'add':
            return a + b
        if op == 'sub':
            return a - b
        if op == 'mul':
            return a * b
        if op == 'sdiv':
            return a / b
        if op == 'udiv':
            return z3.UDiv(a, b)
        if op == 'srem':
            return z3.SRem(a, b)
        if op == 'urem':
            return z3.URem(a, b)
        if op == 'and':
            return a & b
        if op == 'or':
            return a | b
        if op == 'xor':
            return a ^ b
        if op == 'shl':
            return a << b
        if op == 'lshr':
            return z3.LShR(a, b)
        if op == 'ashr':
            return a >> b
        raise OutOfReach(op)

    def cast(self, op, a, bits):
        if op == 'trunc':
            return z3.Extract(bits - 1, 0, a)
        if op == 'zext':
            return z3.ZeroExt(bits - a.size(), a)
        if op == 'sext':
            return z3.SignExt(bits - a.size(), a)
        raise OutOfReach(op)

    def icmp(self, pred, a, b):
        return {
            'eq': lambda: a == b, 'ne': lambda: a != b,
            'slt': lambda: a < b, 'sle': lambda: a <= b, 'sgt': lambda: a > b, 'sge': lambda: a >= b,
            'ult': lambda: z3.ULT(a, b), 'ule': lambda: z3.ULE(a, b),
            'ugt': lambda: z3.UGT(a, b), 'uge': lambda: z3.UGE(a, b),
        }[pred]()

    def gep(self, st, base, srcty, idx, ins):
        """idx: list of (type, value) with value BV."""
        mod = self.mod
        if isinstance(base, FnPtr):
            raise OutOfReach('gep on function pointer')
        ty = srcty
        p = base
        first = True
        for (ity, iv) in idx:
            if isinstance(iv, (Ptr, FnPtr)):
                raise OutOfReach('pointer as gep index')
            iv = simp(iv)
            if first:
                es = mod.size_of(ty)
                p = self._gep_step(st, p, iv, es, None, ins)
                first = False
                continue
            rty = mod.resolve(ty)
            if isinstance(rty, ir.StructTy):
                k = iv.as_long()
                p = self.ptr_add(p, mod.elem_offset(rty, k))
                ty = rty.elems[k]
            elif isinstance(rty, ir.ArrTy):
                es = mod.size_of(rty.elem)
                p = self._gep_step(st, p, iv, es, rty.n, ins)
                ty = rty.elem
            else:
                raise OutOfReach('gep into %r' % (rty,))
        return p

    def _gep_step(self, st, p, iv, es, count, ins):
        if is_concrete(iv):
            k = iv.as_long()
            if k >= (1 << (iv.size() - 1)):
                k -= 1 << iv.size()
            if count is not None and count > 0 and st is not None and not (0 <= k <= count):
                self.ob(st, 'index', ins, z3.BoolVal(False), info={'what': 'constant index %d into array of %d' % (k, count)})
            return self.ptr_add(p, k * es)
        # symbolic index
        w = iv.size()
        ext = z3.SignExt(self.pbits - w, iv) if w < self.pbits else (iv if w == self.pbits else z3.Extract(self.pbits - 1, 0, iv))
        need = p.need
        if count is not None and count > 0 and st is not None:
            # forming the address needs index <= N (one past the end is legal); dereferencing it needs index < N
            goal = z3.ULE(iv, BV(count, w))
            self.ob(st, 'index', ins, goal, info={'what': 'index into array of %d (address)' % count})
            st.pc.append(goal)
            strict = z3.ULT(iv, BV(count, w))
            need = strict if need is None else z3.And(need, strict)
        off = simp(p.off + ext * BV(es, self.pbits))
        cands = None
        if p.obj is not None and p.obj.kind != 'extglobal':
            base_c = p.cands if p.cands is not None else ([simp(p.off).as_long()] if is_concrete(simp(p.off)) else None)
            if base_c is not None:
                n = count if (count is not None and count > 0) else max((p.obj.size // es) if es else 0, 1)
                if len(base_c) * n <= 1024:
                    cands = sorted({c + i * es for c in base_c for i in range(n)})
        return Ptr(p.obj, off, cands, need)

    # ---- obligations ----------------------------------------------------------------
    def ob(self, st, kind, ins, goal, info=None, name=None):
        fr = st.frames[-1] if st.frames else None
        fn = fr.fn.demangled if fr else (self.current_top or '?')
        line = ins.line if ins is not None and hasattr(ins, 'line') else None
        if name is None:
            if kind in SAFETY_KINDS and ins is not None and ins.dest:
                # safety obligations are keyed by the IR value they guard (stable when unrelated lines move)
                name = '%s#%s#%s' % (short_fn(fn), kind, ins.dest)
            else:
                name = '%s#%s#%s' % (short_fn(fn), kind, line)
                if ins is not None and ins.dest:
                    name += '#' + ins.dest
        goal = simp(goal) if not isinstance(goal, bool) else z3.BoolVal(goal)
        if z3.is_true(goal):
            self.trivial = getattr(self, 'trivial', 0) + 1
            # still counted: recorded as discharged syntactically
            o = Obligation(name, kind, fn, line, [], goal, info)
            o.status = 'unsat'
            o.backend = 'simplifier'
            o.top = self.current_top
            self.obligations.append(o)
            return o
        o = Obligation(name, kind, fn, line, list(st.pc), goal, info)
        o.atoms = self.atoms
        o.top = self.current_top
        inl = [f.fn.demangled for f in st.frames]
        o.info['stack'] = [short_fn(x) for x in inl]
        self.obligations.append(o)
        return o

    # ---- feasibility ------------------------------------------------------------------
    def feasible(self, st, cond):
        c = simp(cond)
        if z3.is_true(c):
            return True
        if z3.is_false(c):
            return False
        if not self.opt['check_feasibility']:
            return True
        self.stats['feas_checks'] += 1
        s = self.solver
        s.push()
        for p in st.pc:
            s.add(p)
        s.add(c)
        r = s.check()
        s.pop()
        return r != z3.unsat


class PathEnd(Exception):
    pass


def split_fn(dem):
    """(class qualified name, method name, parameter text) of a demangled C++ function name"""
    d = dem
    if d.endswith(' const'):
        d = d[:-6]
    if not d.endswith(')'):
        return '', d, ''
    depth = 0
    i = len(d) - 1
    while i >= 0:
        if d[i] == ')':
            depth += 1
        elif d[i] == '(':
            depth -= 1
            if depth == 0:
                break
        i -= 1
    name, params = d[:i], d[i:]
    # last top-level '::'
    depth = 0
    k = len(name) - 1
    cut = -1
    while k > 0:
        ch = name[k]
        if ch in '>)':
            depth += 1
        elif ch in '<(':
            depth -= 1
        elif ch == ':' and name[k - 1] == ':' and depth == 0:
            cut = k - 1
            break
        k -= 1
    if cut < 0:
        return '', name, params
    return name[:cut], name[cut + 2:], params


def short_fn(d):
    """Readable short function key: drop template argument noise and parameter lists."""
    s = d
    # strip parameters
    depth = 0
    out = []
    for ch in s:
        if ch == '<':
            depth += 1
            continue
        if ch == '>':
            depth -= 1
            continue
        if depth == 0:
            out.append(ch)
    s = ''.join(out)
    i = s.find('(')
    if i > 0:
        s = s[:i]
    return s.replace('ace_time::', '')


# ==============================================================================
# Contracts
# ==============================================================================

class LoopSpec:
    def __init__(self, invariant, variant=None, variant_signed=False, name=None):
        self.invariant = invariant   # f(L) -> list of (label, z3 bool)
        self.variant = variant       # f(L) -> z3 bit-vector / int
        self.variant_signed = variant_signed
        self.name = name


def avr_name(dem):
    """the demangled signature of the same declaration on a target where int is 16 bits (int16_t = int, int32_t = long)"""
    import re as _re
    head, sep, tail = dem.partition('(')
    if not sep:
        return dem
    def sub(m):
        uns, base = m.group(1) or '', m.group(2)
        return uns + {'short': 'int', 'int': 'long'}[base]
    return head + sep + _re.sub(r'\b(unsigned )?(short|int)\b', sub, tail)


class Contract:
    def __init__(self, name, requires=None, ensures=None, assigns=None, loops=None, transparent=False,
                 pure=False, extern=False, props=(), unroll=None, model=None, ghost_init=None, inputs=None,
                 note=None, cases=None, logic=None, lang_requires=None, defs=None):
        self.name = name
        # defs: instances of the DEFINITIONS of ghost view functions (view(array, i) := the value stored at entry i) at the entry a
        # call touches.  Added to the caller's path at call sites, never an obligation: a definitional (conservative) extension.
        self.defs = defs
        # self_defs: instances of the DEFINITION of a ghost function (e.g. days(y,m,d) := the day count formula) at the values this
        # function's own postconditions mention; assumed while proving those postconditions, so that callers can reason about the
        # ghost function opaquely (linear arithmetic) -- again a definitional, conservative extension
        self.self_defs = None
        # labels of postconditions that are proved but not handed to callers (callers get an equivalent, lighter clause)
        self.private = ()
        # entry_defs: like self_defs, but assumed from function entry on (needed when the unfolded definition discharges the
        # precondition of a callee inside the body)
        self.entry_defs = None
        # separated(c) -> [(address term, size)]: regions that the precondition makes pairwise disjoint.  The engine proves that from
        # the precondition (one obligation per pair) and then resolves a read inside one region past the stores into the others
        # syntactically, instead of leaving the aliasing question to the solver.
        self.separated = None
        # lang_requires: guarantees of the language / calling convention (distinct references do not overlap, ...);
        # requires: the domain over which the functional postcondition is stated
        self.lang_requires = lang_requires or (lambda c: [])
        dom = requires or (lambda c: [])
        self.domain_requires = dom
        self.total = requires is None      # no domain precondition: the contract may be used at any call site
        self.requires = (lambda c, _l=self.lang_requires, _d=dom: list(_l(c)) + list(_d(c)))
        self.ensures = ensures or (lambda c: [])
        self.assigns = assigns       # None => writes nothing outside its own frame
        self.loops = loops or {}
        self.transparent = transparent
        # a contract whose postcondition speaks about the ghost output stream of ITS OWN call cannot be applied at a call site (the
        # caller's stream would be read instead): such callees are executed in place inside their callers
        self.inline_in_callers = False
        self.call_site_reads = ()    # of 'log' / 'ghost': what the postcondition may legitimately read of the CALLER's state at a call site
        self.pure = pure
        self.extern = extern
        self.props = tuple(props)
        self.unroll = unroll
        self.model = model           # for externs: f(ex, st, c) -> result (side effects on st)
        self.ghost_init = ghost_init
        self.inputs = inputs
        self.note = note
        self.cases = cases           # optional list of (label, f(c)->bool) case split over the precondition
        self.logic = logic           # 'int': obligations are first tried in the integer abstraction (vc/intblast.py)


class LoopCtx:
    """What a loop invariant sees: current locals of the frame + Ctx of the function."""

    def __init__(self, ex, st, frame, ctx):
        self.ex = ex
        self.st = st
        self.frame = frame
        self.c = ctx
        self.mem = MemView(ex, st.bytes, st.mem, st.typed)

    def _alloca(self, name):
        if name not in self.frame.allocas:
            # the contract names a local of the function (loop counter, cursor) that the current source no longer has
            raise OutOfReach('the loop invariant of %s refers to the local %r, which the current source does not have' % (
                self.frame.fn.demangled, name))
        return self.frame.allocas[name]

    def var(self, name, signed=None):
        o = self._alloca(name)
        data = self.st.bytes[o.id]
        n = o.size if o.ty_bits is None else (o.ty_bits + 7) // 8
        v = self.ex._load_at(data, o, 0, n, False, self.st)
        if o.ty_bits is not None and o.ty_bits != 8 * n:
            v = z3.Extract(o.ty_bits - 1, 0, v)
        return v

    def ptr(self, name):
        o = self._alloca(name)
        data = self.st.bytes[o.id]
        return self.ex._load_at(data, o, 0, self.ex.pbytes, True, self.st)


# ==============================================================================
# Loop discovery
# ==============================================================================

def find_loops(fn):
    """Natural loops: {header: set(blocks)} and back edges, headers in block order."""
    if getattr(fn, '_loops', None) is not None:
        return fn._loops
    names = list(fn.blocks)
    succ = {b: [s for s in fn.successors(fn.blocks[b]) if s in fn.blocks] for b in names}
    entry = names[0]
    # reachable
    seen = set()
    stack = [entry]
    while stack:
        b = stack.pop()
        if b in seen:
            continue
        seen.add(b)
        stack.extend(succ[b])
    names = [b for b in names if b in seen]
    dom = {b: set(names) for b in names}
    dom[entry] = {entry}
    preds = {b: [] for b in names}
    for b in names:
        for s in succ[b]:
            if s in preds:
                preds[s].append(b)
    changed = True
    while changed:
        changed = False
        for b in names:
            if b == entry:
                continue
            ps = [dom[p] for p in preds[b]]
            nd = set.intersection(*ps) if ps else set()
            nd = nd | {b}
            if nd != dom[b]:
                dom[b] = nd
                changed = True
    loops = {}
    for b in names:
        for s in succ[b]:
            if s in dom[b]:  # back edge b -> s
                body = loops.setdefault(s, set([s]))
                stack = [b]
                while stack:
                    x = stack.pop()
                    if x in body:
                        continue
                    body.add(x)
                    stack.extend(preds[x])
    ordered = [h for h in names if h in loops]
    fn._loops = (loops, ordered)
    return fn._loops


def def_map(fn):
    if getattr(fn, '_defs', None) is None:
        d = {}
        for b in fn.blocks.values():
            for ins in b.instrs:
                if ins.dest:
                    d[ins.dest] = ins
        fn._defs = d
    return fn._defs


def root_alloca(fn, val):
    """Name of the alloca a pointer operand is derived from through gep/bitcast, else None."""
    defs = def_map(fn)
    seen = 0
    while isinstance(val, ir.Reg) and seen < 50:
        ins = defs.get(val.name)
        if ins is None:
            return None
        if ins.op == 'alloca':
            return ins.dest
        if ins.op in ('bitcast', 'getelementptr'):
            val = ins.args[0][1]
            seen += 1
            continue
        return None
    return None


# ==============================================================================
# The executor proper
# ==============================================================================

class Executor(Engine):

    # ---- top level ---------------------------------------------------------------
    def lookup_fn(self, demangled):
        names = self.mod.by_demangled.get(demangled)
        if not names and self.mod.ptr_bits == 16:
            names = self.mod.by_demangled.get(avr_name(demangled))
        if not names:
            raise KeyError('function not found in IR: %s' % demangled)
        # constructors/destructors: C1/C2 share a demangled name; prefer the base-object variant
        names = sorted(names, key=lambda n: ('C2' not in n and 'D2' not in n, n))
        return self.mod.functions[names[0]]

    def make_args(self, fn, st):
        args = []
        for k, (t, n, attrs) in enumerate(fn.params):
            rt = self.mod.resolve(t)
            nm = n or ('p%d' % k)
            if isinstance(rt, ir.IntTy):
                args.append(z3.BitVec('arg_' + nm, rt.bits))
            elif isinstance(rt, ir.PtrTy):
                a = z3.BitVec('arg_' + nm, self.pbits)
                args.append(Ptr(None, a))
                # language-level guarantee for references / this: non-null, and the object does not
                # wrap around the end of the address space
                n = max([x[1] for x in attrs if isinstance(x, tuple) and x[0] == 'deref'] or [0])
                if 'sret' in attrs or 'byval' in attrs:
                    n = max(n, self.mod.size_of(rt.pointee))
                if n:
                    st.pc.append(z3.And(a != BV(0, self.pbits), z3.ULE(a, BV((1 << self.pbits) - 1 - n - 64, self.pbits))))
            elif isinstance(rt, (ir.StructTy, ir.ArrTy)):
                args.append(z3.BitVec('arg_' + nm, 8 * self.mod.size_of(rt)))
            else:
                raise OutOfReach('parameter of type %r' % (t,))
        return args

    def verify(self, contract, mode='all'):
        """Generate the obligations of one function against its own contract.
        Returns the list of Obligation objects produced (also appended to self.obligations)."""
        fn = self.lookup_fn(contract.name)
        if fn.unsupported:
            raise OutOfReach('%s: %s' % (contract.name, fn.unsupported))
        self.current_top = contract.name
        first_ob = len(self.obligations)
        st = State()
        st.mem = z3.Const('mem0', self.mem_sort)
        self.mem_info = {}
        self.mem_filtered = {}
        self.sep = []
        self._mem_register(st.mem, st.mem, [])
        args = self.make_args(fn, st)
        if contract.inputs:
            # argument values that the contract's precondition fixes in terms of other arguments (e.g. q == p + 6) are substituted,
            # so that the byte-level memory model resolves accesses through them syntactically; the equalities are part of `requires`
            args = contract.inputs(self, args)
        if contract.ghost_init:
            contract.ghost_init(self, st)
        old = MemView(self, {}, st.mem)
        ctx = Ctx(self, fn, args, old, state=st)
        ctx.fn_params = fn.params
        ctx.ghost = st.ghost
        pre = [simp(p) if not isinstance(p, bool) else z3.BoolVal(p) for p in contract.requires(ctx)]
        st.pc.extend(pre)
        if contract.entry_defs is not None:
            st.pc.extend(simp(e) for _, e in contract.entry_defs(ctx))
        if contract.separated is not None:
            regs = [(simp(a), nn) for a, nn in contract.separated(ctx)]
            top = BV((1 << self.pbits) - 1 - 4096, self.pbits)
            for i in range(len(regs)):
                self.ob(st, 'post', None, z3.ULE(regs[i][0], top), name='%s#separated#region-%d-does-not-wrap' % (short_fn(contract.name), i))
                for j in range(i + 1, len(regs)):
                    (a, na), (b, nb) = regs[i], regs[j]
                    self.ob(st, 'post', None, z3.Or(z3.UGE(a, b + BV(nb, self.pbits)), z3.UGE(b, a + BV(na, self.pbits))),
                            name='%s#separated#regions-%d-%d-disjoint-by-the-precondition' % (short_fn(contract.name), i, j))
            self.sep = [self._addr_key(a) + (nn,) for a, nn in regs]
        self.top_ctx = ctx
        self.top_contract = contract
        self.top_assigns = contract.assigns(ctx) if contract.assigns else []
        # cover: precondition satisfiable
        s = z3.Solver()
        s.set('timeout', 20000)
        for p in pre:
            s.add(p)
        r = s.check()
        self.covers.append((contract.name, 'requires-satisfiable', str(r)))
        self.paths_top = 0
        self.finished_pcs = []
        self._push_frame(st, fn, args, None, None)
        work = [st]
        while work:
            cur = work.pop()
            try:
                self._run_path(cur, work, contract, ctx)
            except PathEnd:
                pass
            if self.paths_top > self.opt['max_paths']:
                raise Undecided('%s: path budget of %d exceeded' % (contract.name, self.opt['max_paths']))
        self.covers.append((contract.name, 'paths', self.paths_top))
        # cover: some path reaches the function's exit with a satisfiable path condition (a contradictory assumption taken on the
        # way -- a callee contract, a definition, a loop invariant -- would make every obligation of the function hold vacuously)
        verdict = 'no-exit-path' if not self.finished_pcs else 'unsat'
        for pcs in self.finished_pcs[:64]:
            s = z3.Solver()
            s.set('timeout', 4000)
            for p in pcs:
                s.add(p)
            r = s.check()
            if r != z3.unsat:
                verdict = str(r)
                break
        self.covers.append((contract.name, 'exit-reachable', verdict))
        if contract.logic:
            for o in self.obligations[first_ob:]:
                o.info['logic'] = contract.logic
        return self.obligations[first_ob:]

    def _push_frame(self, st, fn, args, ret_dest, call_ins):
        if fn.unsupported:
            raise OutOfReach('%s: %s' % (fn.demangled, fn.unsupported))
        fr = Frame(fn, len(st.frames))
        fr.block = fn.entry().name
        fr.idx = 0
        for (t, n, attrs), v in zip(fn.params, args):
            fr.regs[n if n is not None else str(len(fr.regs))] = v
        fr.ret_dest = ret_dest
        fr.call_line = call_ins.line if call_ins is not None else None
        st.frames.append(fr)
        return fr

    # ---- one path ------------------------------------------------------------------
    def _run_path(self, st, work, contract, ctx):
        while True:
            fr = st.frames[-1]
            blk = fr.fn.blocks[fr.block]
            if fr.idx >= len(blk.instrs):
                raise OutOfReach('fell off block %s in %s' % (fr.block, fr.fn.demangled))
            ins = blk.instrs[fr.idx]
            fr.idx += 1
            op = ins.op
            if op == 'alloca':
                size = self.mod.size_of(ins.ty)
                o = self.new_obj(st, '%' + ins.dest, size, 'alloca')
                rt = self.mod.resolve(ins.ty)
                o.ty_bits = rt.bits if isinstance(rt, ir.IntTy) else None
                o.is_ptr = isinstance(rt, ir.PtrTy)
                o.frame = fr.depth
                st.bytes[o.id] = [None] * size
                fr.allocas[ins.dest] = o
                fr.regs[ins.dest] = Ptr(o, BV(0, self.pbits))
            elif op == 'load':
                p = self.ev(st, *ins.args[0])
                fr.regs[ins.dest] = self.load(st, p, ins.ty, ins)
            elif op == 'store':
                v = self.ev(st, *ins.args[0])
                p = self.ev(st, *ins.args[1])
                self.store(st, p, ins.args[0][0], v, ins)
            elif op == 'getelementptr':
                base = self.ev(st, *ins.args[0])
                idx = [(t, self.ev(st, t, v)) for t, v in ins.args[1:]]
                fr.regs[ins.dest] = self.gep(st, base, ins.ty, idx, ins)
            elif op in ('bitcast', 'addrspacecast'):
                fr.regs[ins.dest] = self.ev(st, *ins.args[0])
            elif op in ('trunc', 'zext', 'sext'):
                a = self.ev(st, *ins.args[0])
                fr.regs[ins.dest] = simp(self.cast(op, a, self.mod.resolve(ins.ty).bits))
            elif op == 'ptrtoint':
                a = self.ev(st, *ins.args[0])
                v = self.ptr_to_bv(a)
                bits = self.mod.resolve(ins.ty).bits
                if bits < self.pbits:
                    v = z3.Extract(bits - 1, 0, v)
                elif bits > self.pbits:
                    v = z3.ZeroExt(bits - self.pbits, v)
                fr.regs[ins.dest] = simp(v)
            elif op == 'inttoptr':
                a = self.ev(st, *ins.args[0])
                if a.size() < self.pbits:
                    a = z3.ZeroExt(self.pbits - a.size(), a)
                elif a.size() > self.pbits:
                    a = z3.Extract(self.pbits - 1, 0, a)
                fr.regs[ins.dest] = self.bv_to_ptr(st, a)
            elif op in ir.BIN_OPS:
                a = self.ev(st, *ins.args[0])
                b = self.ev(st, *ins.args[1])
                if isinstance(a, (Ptr, FnPtr)) or isinstance(b, (Ptr, FnPtr)):
                    raise OutOfReach('arithmetic on pointer')
                self._safety_binop(st, ins, op, a, b)
                fr.regs[ins.dest] = simp(self.binop(op, a, b))
            elif op == 'icmp':
                a = self.ev(st, *ins.args[0])
                b = self.ev(st, *ins.args[1])
                if isinstance(a, (Ptr, FnPtr)) or isinstance(b, (Ptr, FnPtr)):
                    a = self.ptr_to_bv(a) if isinstance(a, (Ptr, FnPtr)) else a
                    b = self.ptr_to_bv(b) if isinstance(b, (Ptr, FnPtr)) else b
                c = self.icmp(ins.extra, a, b)
                fr.regs[ins.dest] = simp(z3.If(c, BV(1, 1), BV(0, 1)))
            elif op == 'select':
                c = self.ev(st, *ins.args[0])
                a = self.ev(st, *ins.args[1])
                b = self.ev(st, *ins.args[2])
                if isinstance(a, (Ptr, FnPtr)) or isinstance(b, (Ptr, FnPtr)):
                    r = z3.If(c == BV(1, 1), self.ptr_to_bv(a), self.ptr_to_bv(b))
                    fr.regs[ins.dest] = self.bv_to_ptr(st, r)
                else:
                    fr.regs[ins.dest] = simp(z3.If(c == BV(1, 1), a, b))
            elif op == 'phi':
                # all phis of a block are evaluated against the state on entry to the block
                vals = {}
                j = fr.idx - 1
                while j < len(blk.instrs) and blk.instrs[j].op == 'phi':
                    pi = blk.instrs[j]
                    for v, lbl in pi.extra:
                        if lbl == fr.prev:
                            vals[pi.dest] = self.ev(st, pi.ty, v)
                            break
                    else:
                        raise OutOfReach('phi without incoming for %s' % fr.prev)
                    j += 1
                fr.regs.update(vals)
                fr.idx = j
            elif op == 'br':
                if len(ins.extra) == 1:
                    self._goto(st, ins.extra[0], ins)
                else:
                    c = self.ev(st, *ins.args[0])
                    cond = simp(c == BV(1, 1))
                    t_ok = self.feasible(st, cond)
                    f_ok = self.feasible(st, z3.Not(cond))
                    if t_ok and f_ok:
                        other = st.copy()
                        other.pc.append(simp(z3.Not(cond)))
                        try:
                            self._goto(other, ins.extra[1], ins)
                            work.append(other)
                        except PathEnd:
                            pass
                        st.pc.append(cond)
                        self._goto(st, ins.extra[0], ins)
                    elif t_ok:
                        st.pc.append(cond)
                        self._goto(st, ins.extra[0], ins)
                    elif f_ok:
                        st.pc.append(simp(z3.Not(cond)))
                        self._goto(st, ins.extra[1], ins)
                    else:
                        # neither side is feasible: the path condition itself has become unsatisfiable since the last branch, through an
                        # ASSUMED clause (a callee's postcondition, a definition, an invariant, a checked-then-assumed safety condition).
                        # Recorded: a contradictory assumption would make the rest of the path vacuous (see check.finish)
                        self.covers.append((self.top_contract.name, 'dead-path', '%s:%s' % (short_fn(st.frames[-1].fn.demangled), ins.line)))
                        raise PathEnd()
            elif op == 'switch':
                v = self.ev(st, *ins.args[0])
                conds = []
                for cv, lbl in ins.extra['cases']:
                    conds.append((simp(v == BV(cv, v.size())), lbl))
                dflt = simp(z3.And([z3.Not(c) for c, _ in conds])) if conds else z3.BoolVal(True)
                alts = conds + [(dflt, ins.extra['default'])]
                feas = [(c, l) for c, l in alts if self.feasible(st, c)]
                if not feas:
                    self.covers.append((self.top_contract.name, 'dead-path', '%s:%s' % (short_fn(st.frames[-1].fn.demangled), ins.line)))
                    raise PathEnd()
                for c, l in feas[1:]:
                    other = st.copy()
                    other.pc.append(c)
                    try:
                        self._goto(other, l, ins)
                        work.append(other)
                    except PathEnd:
                        pass
                st.pc.append(feas[0][0])
                self._goto(st, feas[0][1], ins)
            elif op == 'ret':
                rv = self.ev(st, *ins.args[0]) if ins.args else None
                if len(st.frames) == 1:
                    self._finish(st, contract, ctx, rv, ins)
                    self.paths_top += 1
                    return
                done = st.frames.pop()
                caller = st.frames[-1]
                if done.ret_dest:
                    caller.regs[done.ret_dest] = rv
            elif op == 'unreachable':
                self.ob(st, 'unreachable', ins, z3.BoolVal(False))
                self.paths_top += 1
                raise PathEnd()
            elif op == 'call':
                self._call(st, ins, work)
            elif op == 'extractvalue':
                aty, av = ins.args[0]
                agg = self.ev(st, aty, av)
                off, ety = self._agg_path(aty, ins.extra)
                rt = self.mod.resolve(ety)
                n = self.mod.size_of(rt)
                piece = simp(z3.Extract(8 * (off + n) - 1, 8 * off, agg))
                if isinstance(rt, ir.IntTy):
                    piece = piece if rt.bits == 8 * n else simp(z3.Extract(rt.bits - 1, 0, piece))
                elif isinstance(rt, ir.PtrTy):
                    piece = self.bv_to_ptr(st, piece)
                st.frames[-1].regs[ins.dest] = piece
            elif op == 'insertvalue':
                aty, av = ins.args[0]
                agg = self.ev(st, aty, av)
                ety0, ev0 = ins.args[1]
                elem = self.ev(st, ety0, ev0)
                off, ety = self._agg_path(aty, ins.extra)
                n = self.mod.size_of(self.mod.resolve(ety))
                if isinstance(elem, (Ptr, FnPtr)):
                    elem = self.ptr_to_bv(elem)
                if elem.size() != 8 * n:
                    elem = simp(z3.ZeroExt(8 * n - elem.size(), elem))
                total = agg.size()
                parts = []
                if 8 * (off + n) < total:
                    parts.append(z3.Extract(total - 1, 8 * (off + n), agg))
                parts.append(elem)
                if off > 0:
                    parts.append(z3.Extract(8 * off - 1, 0, agg))
                st.frames[-1].regs[ins.dest] = simp(z3.Concat(*parts)) if len(parts) > 1 else elem
            else:
                raise OutOfReach('instruction %s' % op)

    def _safety_binop(self, st, ins, op, a, b):
        w = a.size()
        if op in ('add', 'sub', 'mul'):
            if 'nsw' in ins.flags:
                ea, eb = z3.SignExt(w, a), z3.SignExt(w, b)
                wide = {'add': ea + eb, 'sub': ea - eb, 'mul': ea * eb}[op]
                goal = wide == z3.SignExt(w, self.binop(op, a, b))
                self.ob(st, 'nsw', ins, goal, info={'op': op})
            if 'nuw' in ins.flags:
                ea, eb = z3.ZeroExt(w, a), z3.ZeroExt(w, b)
                wide = {'add': ea + eb, 'sub': ea - eb, 'mul': ea * eb}[op]
                goal = wide == z3.ZeroExt(w, self.binop(op, a, b))
                self.ob(st, 'nuw', ins, goal, info={'op': op})
        elif op in ('sdiv', 'srem'):
            goal = z3.And(b != BV(0, w), z3.Not(z3.And(a == BV(1 << (w - 1), w), b == BV((1 << w) - 1, w))))
            self.ob(st, 'div', ins, goal, info={'op': op})
        elif op in ('udiv', 'urem'):
            self.ob(st, 'div', ins, b != BV(0, w), info={'op': op})
        elif op in ('shl', 'lshr', 'ashr'):
            self.ob(st, 'shift', ins, z3.ULT(b, BV(w, w)), info={'op': op})

    # ---- control transfer with loop handling ------------------------------------------
    def _goto(self, st, target, ins):
        fr = st.frames[-1]
        fn = fr.fn
        loops, ordered = find_loops(fn)
        src = fr.block
        fr.prev = src
        fr.block = target
        fr.idx = 0
        if target not in loops:
            return
        body = loops[target]
        spec = self._loop_spec(fn, target, ordered)
        back = src in body
        if spec is None:
            key = target
            if not back:
                fr.loop_visits[key] = 0
            fr.loop_visits[key] = fr.loop_visits.get(key, 0) + 1
            bound = self._unroll_bound(fn)
            if fr.loop_visits[key] > bound + 1:
                self.ob(st, 'unwind', ins, z3.BoolVal(False),
                        info={'what': 'more than %d iterations of loop %s' % (bound, target)},
                        name='%s#unwind#%s' % (short_fn(fn.demangled), target))
                self.paths_top += 1
                raise PathEnd()
            return
        # cut-point loop
        L = LoopCtx(self, st, fr, self.top_ctx)
        cutkey = ('cut', fr.depth, target)
        if not back or cutkey not in st.ghost:
            for label, e in spec.invariant(L):
                self.ob(st, 'inv-init', ins, e, name='%s#inv-init#%s#%s' % (short_fn(fn.demangled), target, label))
            self._havoc_loop(st, fr, fn, body)
            L = LoopCtx(self, st, fr, self.top_ctx)
            for label, e in spec.invariant(L):
                st.pc.append(simp(e))
            st.ghost = dict(st.ghost)
            st.ghost[cutkey] = spec.variant(L) if spec.variant else True
        else:
            for label, e in spec.invariant(L):
                self.ob(st, 'inv-keep', ins, e, name='%s#inv-keep#%s#%s' % (short_fn(fn.demangled), target, label))
            if spec.variant:
                v0 = st.ghost[cutkey]
                v1 = spec.variant(L)
                if z3.is_bv(v1):
                    goal = (v1 < v0) if spec.variant_signed else z3.ULT(v1, v0)
                    if spec.variant_signed:
                        goal = z3.And(goal, v0 >= 0)
                else:
                    goal = z3.And(v1 < v0, v0 >= 0)
                self.ob(st, 'variant', ins, goal, name='%s#variant#%s' % (short_fn(fn.demangled), target))
            self.paths_top += 1
            raise PathEnd()

    def _unroll_bound(self, fn):
        c = self.contracts.get(fn.demangled)
        if c is not None and c.unroll is not None:
            return c.unroll
        return self.opt['unroll']

    def _loop_spec(self, fn, header, ordered):
        c = self.contracts.get(fn.demangled)
        if c is None or not c.loops:
            return None
        if header in c.loops:
            return c.loops[header]
        k = ordered.index(header)
        return c.loops.get(k)

    def _havoc_loop(self, st, fr, fn, body):
        ext = False
        names = set()
        for b in body:
            for ins in fn.blocks[b].instrs:
                if ins.op == 'store':
                    r = root_alloca(fn, ins.args[1][1])
                    if r:
                        names.add(r)
                    else:
                        ext = True
                elif ins.op == 'call':
                    callee = ins.extra
                    nm = callee.name if isinstance(callee, ir.GlobalRef) else None
                    if nm and nm.startswith('llvm.'):
                        if nm.startswith('llvm.mem'):
                            r = root_alloca(fn, ins.args[0][1])
                            if r:
                                names.add(r)
                            else:
                                ext = True
                        continue
                    dem = None
                    if nm:
                        f2 = self.mod.functions.get(nm)
                        dem = f2.demangled if f2 else self.mod.declare_demangled.get(nm)
                    cc = self.contracts.get(dem) if dem else None
                    pure = cc is not None and cc.pure
                    if not pure:
                        ext = True
                    for t, v in ins.args:
                        r = root_alloca(fn, v)
                        if r and not pure:
                            names.add(r)
        for n in names:
            o = fr.allocas.get(n)
            if o is not None:
                st.bytes[o.id] = [self.fresh('loop_' + n, 8) for _ in range(o.size)]
        if ext:
            if self.top_contract.assigns is None:
                pass  # the function declares it writes nothing external; stores are checked by frame obligations
            else:
                for (p, n) in self.top_assigns:
                    self.havoc(st, p, n, 'loopmem')
            for o in st.objs.values():
                if o.escaped and o.kind == 'alloca' and o.frame is not None and o.frame < fr.depth:
                    st.bytes[o.id] = [self.fresh('loop_esc', 8) for _ in range(o.size)]

    # ---- function exit ---------------------------------------------------------------
    def _finish(self, st, contract, ctx, rv, ins):
        self.finished_pcs.append(list(st.pc))
        new = MemView(self, st.bytes, st.mem, dict(st.typed))
        c2 = Ctx(self, ctx.fn, ctx.args, ctx.old, new=new, result=rv, state=st)
        c2.fn_params = ctx.fn_params
        c2.ghost = st.ghost
        c2.log = st.log
        c2.own = True
        posts = contract.ensures(c2)
        fnm = short_fn(contract.name)
        if contract.self_defs is not None:
            st.pc = st.pc + [simp(e) for _, e in contract.self_defs(c2)]
        cases = contract.cases(c2) if callable(contract.cases) else contract.cases
        for label, e in posts:
            if cases and not z3.is_true(simp(e)):
                for cl, cf in cases:
                    cond = cf(c2) if callable(cf) else cf
                    saved = st.pc
                    st.pc = saved + [simp(cond)]
                    self.ob(st, 'post', ins, e, name='%s#post#%s#case-%s' % (fnm, label, cl))
                    st.pc = saved
            else:
                self.ob(st, 'post', ins, e, name='%s#post#%s' % (fnm, label))
        if cases:
            self.ob(st, 'post', ins, z3.Or([cf(c2) if callable(cf) else cf for _, cf in cases]),
                    name='%s#post#cases-cover' % fnm)
        # frame: every external store lies inside the declared assigns
        ranges = self.top_assigns
        for (addr, n, f, line) in st.ext_stores:
            if ranges:
                inside = []
                for (p, m) in ranges:
                    base = self.ptr_to_bv(p)
                    inside.append(z3.And(z3.ULE(base, addr), z3.ULE(addr + BV(n, self.pbits), base + BV(m, self.pbits)),
                                         z3.ULE(addr, addr + BV(n, self.pbits))))
                goal = z3.Or(inside)
            else:
                goal = z3.BoolVal(False)
            self.ob(st, 'frame', None, goal, name='%s#frame#%s:%s' % (fnm, short_fn(f), line),
                    info={'what': 'store of %d bytes' % n})

    # ---- calls -------------------------------------------------------------------------
    def _call(self, st, ins, work):
        fr = st.frames[-1]
        callee = ins.extra
        args = [self.ev(st, t, v) for t, v in ins.args]
        for a in args:
            if isinstance(a, Ptr) and a.obj is not None:
                a.obj.escaped = True
        name = None
        if isinstance(callee, ir.GlobalRef):
            name = callee.name
        elif isinstance(callee, ir.Reg):
            fv = fr.regs.get(callee.name)
            if isinstance(fv, FnPtr):
                name = fv.name
            else:
                return self._virtual_call(st, ins, args, fv)
        else:
            raise OutOfReach('callee %r' % (callee,))
        if name.startswith('llvm.'):
            return self._intrinsic(st, ins, name, args)
        f2 = self.mod.functions.get(name)
        dem = f2.demangled if f2 is not None else self.mod.declare_demangled.get(name, name)
        c = self.contracts.get(dem)
        if c is not None and c.model is not None:
            return self._apply_model(st, ins, c, args, f2)
        if c is not None and not c.transparent and not (c.inline_in_callers and f2 is not None and not f2.unsupported):
            return self._apply_contract(st, ins, c, args, f2, dem)
        if f2 is None:
            raise OutOfReach('call to external function without contract: %s' % dem)
        if len(st.frames) >= self.opt['max_inline_depth']:
            raise OutOfReach('inline depth exceeded at %s' % dem)
        self.stats['inlined'] += 1
        self._push_frame(st, f2, args, ins.dest, ins)

    def _ret_value(self, ins, tag):
        rt = self.mod.resolve(ins.ty) if ins.ty is not None else None
        if rt is None or isinstance(rt, ir.VoidTy):
            return None
        if isinstance(rt, ir.IntTy):
            return self.fresh('ret_' + tag, rt.bits)
        if isinstance(rt, ir.PtrTy):
            return Ptr(None, self.fresh('retp_' + tag, self.pbits))
        if isinstance(rt, (ir.StructTy, ir.ArrTy)):
            return self.fresh('ret_' + tag, 8 * self.mod.size_of(rt))
        raise OutOfReach('return type %r' % (rt,))

    def _apply_contract(self, st, ins, c, args, f2, dem):
        self.stats['contract_calls'] += 1
        fr = st.frames[-1]
        old = MemView(self, {k: list(v) for k, v in st.bytes.items()}, st.mem, dict(st.typed))
        cx = Ctx(self, f2, args, old, state=st)
        cx.fn_params = f2.params if f2 is not None else [(t, None, ()) for t, _ in ins.args]
        cx.ghost = st.ghost
        cx.log = st.log
        tag = short_fn(dem).split('::')[-1]
        for k, p in enumerate(c.requires(cx)):
            self.ob(st, 'call-pre', ins, p, name='%s#call-pre#%s:%s#%d' % (
                short_fn(fr.fn.demangled), tag, ins.line, k))
            st.pc.append(simp(p) if not isinstance(p, bool) else z3.BoolVal(p))
        if c.assigns:
            for (p, n) in c.assigns(cx):
                # a callee's writes are writes of the caller: check them against the caller's frame
                if p.obj is None or p.obj.kind == 'extglobal':
                    st.ext_stores.append((self.ptr_to_bv(p), n, fr.fn.demangled, ins.line))
                self.havoc(st, p, n, 'call_' + tag)
        rv = self._ret_value(ins, tag)
        new = MemView(self, st.bytes, st.mem, dict(st.typed))
        cx2 = Ctx(self, f2, args, old, new=new, result=rv, state=st)
        cx2.fn_params = cx.fn_params
        cx2.ghost = st.ghost
        cx2.log = st.log
        cx2.touched.clear()
        posts = c.ensures(cx2)
        if cx2.touched - set(c.call_site_reads):
            # a postcondition about the callee's own ghost stream / call history has no meaning in the caller's history
            self.stats.setdefault('history_posts_at_call_sites', []).append((dem, fr.fn.demangled, sorted(cx2.touched)))
            raise OutOfReach('%s: postcondition reads the %s of its own call and cannot be applied inside %s (inline it or restate it over ghost functions)' % (
                short_fn(dem), '/'.join(sorted(cx2.touched)), short_fn(fr.fn.demangled)))
        for label, e in posts:
            if label in c.private:
                continue
            st.pc.append(simp(e))
        if c.defs is not None:
            for label, e in c.defs(cx2):
                st.pc.append(simp(e))
        st.log.append(('call', dem, list(args), rv))
        if ins.dest:
            fr.regs[ins.dest] = rv

    def _apply_model(self, st, ins, c, args, f2):
        fr = st.frames[-1]
        cx = Ctx(self, f2, args, MemView(self, st.bytes, st.mem, dict(st.typed)), state=st)
        cx.ghost = st.ghost
        cx.log = st.log
        cx.ins = ins
        rv = c.model(self, st, cx)
        if ins.dest:
            if rv is None:
                rv = self._ret_value(ins, 'model')
            fr.regs[ins.dest] = rv

    def _intrinsic(self, st, ins, name, args):
        fr = st.frames[-1]
        if name.startswith('llvm.memcpy') or name.startswith('llvm.memmove'):
            n = simp(args[2])
            if not is_concrete(n):
                raise OutOfReach('memcpy with symbolic length')
            n = n.as_long()
            src, dst = args[1], args[0]
            bs = []
            for k in range(n):
                p = self.ptr_add(src, k)
                if p.obj is not None and p.obj.kind != 'extglobal':
                    self._bounds_ob(st, p, 1, ins)
                    data = self.obj_bytes(st.bytes, p.obj)
                    o = simp(p.off)
                    if is_concrete(o):
                        b = data[o.as_long()]
                        if b is None:
                            b = self.fresh('uninit', 8)
                            data[o.as_long()] = b
                        bs.append(b)
                        continue
                bs.append(self._load_raw(st.bytes, st.mem, p, 1, st))
            self.store_bytes(st, dst, bs, ins)
            return
        if name.startswith('llvm.memset'):
            n = simp(args[2])
            if not is_concrete(n):
                raise OutOfReach('memset with symbolic length')
            self.store_bytes(st, args[0], [args[1]] * n.as_long(), ins)
            return
        if name in ('llvm.trap', 'llvm.ubsantrap'):
            self.ob(st, 'unreachable', ins, z3.BoolVal(False))
            raise PathEnd()
        if name.startswith('llvm.dbg') or name.startswith('llvm.lifetime') or name.startswith('llvm.assume'):
            return
        if name.startswith('llvm.stacksave'):
            fr.regs[ins.dest] = Ptr(None, BV(0, self.pbits))
            return
        if name.startswith('llvm.stackrestore'):
            return
        raise OutOfReach('intrinsic %s' % name)

    # ---- virtual calls ------------------------------------------------------------------
    def virt_table(self):
        """{(class qualified name, virtualIndex): method name} from DISubprogram declarations."""
        if self._virt is not None:
            return self._virt
        import re
        comp_name = {}
        res = {}
        for mid, text in self.mod.meta.items():
            if 'DISubprogram(' in text and 'virtualIndex:' in text:
                nm = re.search(r'name: "([^"]*)"', text).group(1)
                vi = int(re.search(r'virtualIndex: ([0-9]+)', text).group(1))
                ln = re.search(r'linkageName: "([^"]*)"', text)
                res.setdefault(vi, []).append((nm, ln.group(1) if ln else None))
        lns = [l for v in res.values() for (_, l) in v if l]
        dm = dict(zip(lns, ir.demangle(lns)))
        out = {}
        for vi, lst in res.items():
            for nm, ln in lst:
                if ln:
                    d = dm[ln]
                    cls = split_fn(d)[0]
                    out[(cls, vi)] = d
        self._virt = out
        return out

    def _virtual_call(self, st, ins, args, fv):
        fr = st.frames[-1]
        defs = def_map(fr.fn)
        # %fp = load (gep %vtable, K) ; %vtable = load (bitcast %obj to T***)
        d = defs.get(ins.extra.name)
        slot = None
        cls = None
        try:
            g = defs[d.args[0][1].name]
            if g.op == 'getelementptr':
                slot = g.args[1][1].v
                vt = defs[g.args[0][1].name]
            else:
                slot = 0
                vt = g
            bc = defs[vt.args[0][1].name]
            srcty = bc.args[0][0]
            cls = srcty.pointee.name.split('.', 1)[1]
        except (KeyError, AttributeError, IndexError):
            raise OutOfReach('indirect call that is not a recognisable virtual call: %s' % ins.text[:100])
        vt = self.virt_table()
        import re as _re
        base = _re.sub(r'\.\d+$', '', cls)
        cur = fr.fn.demangled
        cur_cls = split_fn(cur)[0]
        if cur_cls == base or cur_cls.startswith(base + '<'):
            cls = cur_cls       # a call on an object of the enclosing (template) class
        else:
            cls = base
        dem = vt.get((cls, slot))
        if dem is None:
            # look in bases: any class whose method at this slot overrides -- use unique method name at slot
            cands = {d for (c, s), d in vt.items() if s == slot and self._derives(cls, c)}
            if len(cands) == 1:
                dem = cands.pop()
        if dem is None:
            raise OutOfReach('virtual slot %d of %s has no declaration' % (slot, cls))
        key = 'virtual ' + dem
        c = self.contracts.get(key)
        if c is None:
            c = self.contracts.get(dem)     # same-class call: the method's own contract
        if c is None:
            raise OutOfReach('virtual call without contract: %s' % key)
        if c.transparent and dem in self.mod.by_demangled:
            # declared devirtualisation (an assumption listed with the contract): the dynamic type is the static class, whose
            # method is executed in place
            self.stats['inlined'] += 1
            self._push_frame(st, self.lookup_fn(dem), args, ins.dest, ins)
            return
        if c.model is not None:
            return self._apply_model(st, ins, c, args, None)
        f2 = None
        if dem in self.mod.by_demangled:
            f2 = self.lookup_fn(dem)
        return self._apply_contract(st, ins, c, args, f2, dem)

    def _derives(self, cls, base):
        return True
