"""Reader for the generated zone tables (zonedb / zonedbx .cpp and .h text) and a small
C constant-expression evaluator.  Used by the ground (variable-free) obligations of
C11 / C12 / C05 / C02 and by the zic oracle of the bounded stand-ins.

Every entry of the tables carries the TZ source line it was generated from in the
comment directly above it; entries and comments are paired by position and the pairing
is itself checked (counts equal numRules / numEras).
"""
import os
import re

from . import build

SUFFIX = {'kSuffixW': 0x00, 'kSuffixS': 0x10, 'kSuffixU': 0x20}

_TOK = re.compile(r"\s*(?:(0[xX][0-9a-fA-F]+|\d+)|('(?:\\.|[^'])')|([A-Za-z_][A-Za-z0-9_:]*)|(<<|>>|[-+*/()%&|]))")


def ctokens(text):
    out = []
    pos = 0
    text = text.strip()
    while pos < len(text):
        m = _TOK.match(text, pos)
        if not m:
            raise ValueError('cannot tokenize C expression at %r' % text[pos:pos + 20])
        pos = m.end()
        if m.group(1):
            out.append(('num', int(m.group(1), 0)))
        elif m.group(2):
            ch = m.group(2)[1:-1]
            out.append(('num', ord(ch[-1]) if not ch.startswith('\\') else {'n': 10, 't': 9, '0': 0, '\\': 92, "'": 39}[ch[1]]))
        elif m.group(3):
            out.append(('id', m.group(3)))
        else:
            out.append(('op', m.group(4)))
    return out


class CEval:
    """Recursive-descent evaluation of + - * / % << >> & | ( ) over ints (python ints or z3 Int terms as operands).
    C semantics for the operators on int (no overflow checks here: ranges are separate obligations)."""

    def __init__(self, toks, idents=None, shl=None):
        self.t = toks
        self.i = 0
        self.idents = idents or {}
        self.shl = shl or (lambda a, b: a * (2 ** b))

    def peek(self):
        return self.t[self.i] if self.i < len(self.t) else (None, None)

    def next(self):
        tok = self.t[self.i]
        self.i += 1
        return tok

    def expr(self):
        return self.bor()

    def bor(self):
        v = self.band()
        while self.peek() == ('op', '|'):
            self.next()
            v = v | self.band()
        return v

    def band(self):
        v = self.shift()
        while self.peek() == ('op', '&'):
            self.next()
            v = v & self.shift()
        return v

    def shift(self):
        v = self.add()
        while self.peek()[1] in ('<<', '>>') and self.peek()[0] == 'op':
            op = self.next()[1]
            r = self.add()
            v = self.shl(v, r) if op == '<<' else v // (2 ** r)
        return v

    def add(self):
        v = self.mul()
        while self.peek()[0] == 'op' and self.peek()[1] in '+-':
            op = self.next()[1]
            r = self.mul()
            v = v + r if op == '+' else v - r
        return v

    def mul(self):
        v = self.unary()
        while self.peek()[0] == 'op' and self.peek()[1] in '*/%':
            op = self.next()[1]
            r = self.unary()
            if op == '*':
                v = v * r
            elif op == '/':
                v = int(v / r)
            else:
                v = v - r * int(v / r)
        return v

    def unary(self):
        k, v = self.peek()
        if k == 'op' and v == '-':
            self.next()
            return -self.unary()
        if k == 'op' and v == '+':
            self.next()
            return self.unary()
        if k == 'op' and v == '(':
            self.next()
            r = self.expr()
            if self.next() != ('op', ')'):
                raise ValueError('expected )')
            return r
        if k == 'num':
            self.next()
            return v
        if k == 'term':
            self.next()
            return v
        if k == 'id':
            self.next()
            short = v.split('::')[-1]
            if v in self.idents:
                return self.idents[v]
            if short in self.idents:
                return self.idents[short]
            if short in SUFFIX:
                return SUFFIX[short]
            raise ValueError('unknown identifier %s' % v)
        raise ValueError('unexpected token %r' % (self.peek(),))


def ceval(text, idents=None):
    p = CEval(ctokens(text), idents)
    v = p.expr()
    if p.i != len(p.t):
        raise ValueError('trailing tokens in %r' % text)
    return v


def ceval_template(parts, idents=None):
    """Evaluate a pyvc Template (list of str / z3 Int pieces) as a C expression; holes are atomic operands."""
    toks = []
    for p in parts:
        if isinstance(p, str):
            toks.extend(ctokens(p))
        elif isinstance(p, int):
            toks.append(('num', p))
        else:
            toks.append(('term', p))
    ev = CEval(toks, idents)
    v = ev.expr()
    if ev.i != len(ev.t):
        raise ValueError('trailing tokens in template')
    return v


# ---- table text ----------------------------------------------------------------------------------

_FIELD = re.compile(r'^\s*(.+?)\s*/\*\s*(\w+)[^*]*\*/\s*,?\s*$')


def _parse_struct_items(body):
    """body: text between the outer braces of an array initialiser. Yields (raw comment, {field: text})."""
    items = []
    raw = None
    cur = None
    for line in body.split('\n'):
        s = line.strip()
        if cur is None:
            if s.startswith('//'):
                raw = s[2:].strip()
            elif s == '{':
                cur = {}
        else:
            if s.startswith('}'):
                items.append((raw, cur))
                cur = None
                raw = None
            else:
                m = _FIELD.match(line)
                if m:
                    cur[m.group(2)] = m.group(1).rstrip(',').strip()
    return items


class Tables:
    def __init__(self, db, dir=None):
        self.db = db      # 'zonedb' | 'zonedbx'
        self.scope = 'basic' if db == 'zonedb' else 'extended'
        d = dir or os.path.join(build.REPO, 'src', 'ace_time', db)
        self.dir = d
        self.policies = {}    # name -> dict(rules=[(raw, fields)], letters=[...], numRules=, numLetters=)
        self.zones = {}       # zone full name -> dict(var=, id=, eras=[(raw, fields)], numEras=, transitionBufSize=, policy refs)
        self.links = {}       # link var name -> target var name
        self.registry = []    # list of var names (kZoneXxx) in registry order
        self.ids_h = {}       # kZoneIdXxx -> value (from zone_infos.h)
        self.context = {}
        self._parse_policies(open(os.path.join(d, 'zone_policies.cpp')).read())
        self._parse_infos(open(os.path.join(d, 'zone_infos.cpp')).read())
        self._parse_registry(open(os.path.join(d, 'zone_registry.cpp')).read())
        self._parse_infos_h(open(os.path.join(d, 'zone_infos.h')).read())

    def _parse_policies(self, text):
        for m in re.finditer(r'static const \w+::ZoneRule kZoneRules(\w+)\[\] ACE_TIME_PROGMEM = \{(.*?)\n\};', text, re.S):
            self.policies[m.group(1)] = dict(rules=_parse_struct_items(m.group(2)), letters=[])
        for m in re.finditer(r'static const char\* const kLetters(\w+)\[\] ACE_TIME_PROGMEM = \{(.*?)\n\};', text, re.S):
            self.policies[m.group(1)]['letters'] = re.findall(r'"((?:[^"\\]|\\.)*)"', m.group(2))
        for m in re.finditer(r'const \w+::ZonePolicy kPolicy(\w+) ACE_TIME_PROGMEM = \{(.*?)\n\};', text, re.S):
            f = {}
            for line in m.group(2).split('\n'):
                mm = _FIELD.match(line)
                if mm:
                    f[mm.group(2)] = mm.group(1).rstrip(',').strip()
            p = self.policies.setdefault(m.group(1), dict(rules=[], letters=[]))
            p['numRules'] = int(f['numRules'])
            p['numLetters'] = int(f['numLetters'])
            p['rules_ref'] = f['rules']

    def _parse_infos(self, text):
        m = re.search(r'const \w+::ZoneContext kZoneContext = \{(.*?)\n\};', text, re.S)
        if m:
            for line in m.group(1).split('\n'):
                mm = _FIELD.match(line)
                if mm:
                    self.context[mm.group(2)] = mm.group(1).rstrip(',').strip()
        tz = re.search(r'const char kTzDatabaseVersion\[\] = "([^"]*)"', text)
        self.tz_version = tz.group(1) if tz else None
        eras = {}
        for m in re.finditer(r'static const \w+::ZoneEra kZoneEra(\w+)\[\] ACE_TIME_PROGMEM = \{(.*?)\n\};', text, re.S):
            eras[m.group(1)] = _parse_struct_items(m.group(2))
        names = dict(re.findall(r'static const char kZoneName(\w+)\[\] ACE_TIME_PROGMEM = "([^"]*)";', text))
        for m in re.finditer(r'\nconst \w+::ZoneInfo kZone(\w+) ACE_TIME_PROGMEM = \{(.*?)\n\};', text, re.S):
            f = {}
            for line in m.group(2).split('\n'):
                mm = _FIELD.match(line)
                if mm:
                    f[mm.group(2)] = mm.group(1).rstrip(',').strip()
            var = m.group(1)
            self.zones[names[var]] = dict(var=var, id=int(f['zoneId'], 0), eras=eras[var], numEras=int(f['numEras']),
                                          transitionBufSize=int(f['transitionBufSize']), eras_ref=f['eras'], name_ref=f['name'])
        for m in re.finditer(r'const \w+::ZoneInfo& kZone(\w+) = kZone(\w+);', text):
            self.links[m.group(1)] = m.group(2)

    def _parse_registry(self, text):
        m = re.search(r'kZoneRegistry\[\d*\] ACE_TIME_PROGMEM = \{(.*?)\n\};', text, re.S)
        self.registry = re.findall(r'&kZone(\w+),', m.group(1))
        self.registry_comment_names = re.findall(r'&kZone\w+, // (\S+)', m.group(1))

    def _parse_infos_h(self, text):
        for m in re.finditer(r'const uint32_t kZoneId(\w+) = (0x[0-9a-fA-F]+);', text):
            self.ids_h[m.group(1)] = int(m.group(2), 16)
        self.h_counts = dict(re.findall(r'// (Total Zones|Supported Zones|numInfos): (\d+)', text))
        self.extern_zones = re.findall(r'extern const \w+::ZoneInfo kZone(\w+);', text)
        self.extern_links = re.findall(r'extern const \w+::ZoneInfo& kZone(\w+);', text)


def djb2(name):
    """the spec of the zone id: djb2 hash modulo 2^32 (independent re-statement)"""
    h = 5381
    for ch in name:
        h = (h * 33 + ord(ch)) % (1 << 32)
    return h


# ---- a small reader for the TZ source lines recorded beside the entries ---------------------------

MONTHS = {m: i + 1 for i, m in enumerate(['Jan', 'Feb', 'Mar', 'Apr', 'May', 'Jun', 'Jul', 'Aug', 'Sep', 'Oct', 'Nov', 'Dec'])}
DOW = {'Mon': 1, 'Tue': 2, 'Wed': 3, 'Thu': 4, 'Fri': 5, 'Sat': 6, 'Sun': 7}


def parse_time(s):
    """'2:00s' -> (seconds, suffix) ; '-' -> (0,'w') ; zic semantics of the suffix letters"""
    suffix = 'w'
    if s == '-':
        return 0, 'w'
    if s[-1] in 'wsugz':
        suffix = {'w': 'w', 's': 's', 'u': 'u', 'g': 'u', 'z': 'u'}[s[-1]]
        s = s[:-1]
    sign = 1
    if s.startswith('-'):
        sign = -1
        s = s[1:]
    parts = [int(x) for x in s.split(':')]
    while len(parts) < 3:
        parts.append(0)
    return sign * (parts[0] * 3600 + parts[1] * 60 + parts[2]), suffix


def parse_on(s):
    """ON field -> (dayOfWeek, dayOfMonth) in the table's convention"""
    if s.startswith('last'):
        return DOW[s[4:7]], 0
    if '>=' in s:
        a, b = s.split('>=')
        return DOW[a[:3]], int(b)
    if '<=' in s:
        a, b = s.split('<=')
        return DOW[a[:3]], -int(b)
    return 0, int(s)


def parse_rule_line(raw):
    """'Rule NAME FROM TO - IN ON AT SAVE LETTER' -> dict (zic syntax)"""
    f = raw.split()
    if f[0] != 'Rule':
        return None
    frm = f[2]
    to = f[3]
    fy = int(frm) if frm not in ('min', 'minimum') else None
    ty = fy if to == 'only' else (9999 if to in ('max', 'maximum') else int(to))
    at, suf = parse_time(f[7])
    save, _ = parse_time(f[8])
    dow, dom = parse_on(f[6])
    return dict(name=f[1], fromYear=fy, toYear=ty, inMonth=MONTHS[f[5][:3]], dow=dow, dom=dom, at=at, suffix=suf, save=save,
                letter='' if f[9] == '-' else f[9])


def parse_era_line(raw):
    """continuation-style era line: 'STDOFF RULES FORMAT [UNTIL...]' (the Zone name column is not recorded)"""
    f = raw.split()
    off, _ = parse_time(f[0])
    rules = f[1]
    fmt = f[2]
    until = f[3:]
    u = dict(year=None, month=1, day=1, seconds=0, suffix='w', day_expr=None)
    if until:
        u['year'] = int(until[0])
        if len(until) > 1:
            u['month'] = MONTHS[until[1][:3]]
        if len(until) > 2:
            if until[2].isdigit():
                u['day'] = int(until[2])
            else:
                u['day_expr'] = until[2]
        if len(until) > 3:
            u['seconds'], u['suffix'] = parse_time(until[3])
    delta = None
    if rules not in ('-',) and (rules[0].isdigit() or rules[0] == '-' and len(rules) > 1):
        delta, _ = parse_time(rules)
    return dict(offset=off, rules=rules, rules_delta=delta, format=fmt, until=u)
